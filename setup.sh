#!/bin/sh
# Offline setup: make sure hypothesis is importable in /venv (it ships there
# already; the install is a no-op then) and try to provide atheris in .deps.
cd "$(dirname "$0")"
/venv/bin/python -c "import hypothesis" 2>/dev/null || \
  /venv/bin/pip install --no-index --find-links /opt/veriftools/wheels hypothesis || exit 1
mkdir -p .deps
/venv/bin/python -c "import sys; sys.path.append('.deps'); import atheris" 2>/dev/null || \
  /venv/bin/pip install -q --no-index --find-links /opt/veriftools/wheels --target .deps atheris \
  || echo "atheris not available: coverage-guided campaigns are skipped"
/venv/bin/python -c "import hypothesis, numpy, sympy, discopy; print('setup ok', hypothesis.__version__)"
