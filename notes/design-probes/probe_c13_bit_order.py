import sys; import os; sys.path.insert(0, os.path.dirname(os.path.abspath(__file__)))
import warnings; warnings.filterwarnings("ignore")
import numpy as np
from tksim import simulate
from discopy.quantum import *
c = Ket(1) >> Measure() >> Ket(0) @ Id(bit) >> Measure() @ Id(bit)
print(c.cod)
print('local', c.eval().array)
t = c.to_tk(); print(repr(t), t.post_processing)
print('tk sim', simulate(t))
c = Ket(1) @ Ket(0) >> Id(1) @ Measure() >> Measure() @ Id(bit)
print('local', c.eval().array)
t = c.to_tk(); print(repr(t), t.post_processing)
print('tk sim', simulate(t))
