import sys; import os; sys.path.insert(0, os.path.dirname(os.path.abspath(__file__)))
import warnings; warnings.filterwarnings("ignore")
import numpy as np, collections, traceback
from hypothesis import given, settings, HealthCheck, strategies as st
from discopy import rigid as R, monoidal as M
from discopy.rewriting import InterchangerError
from discopy.cat import AxiomError

NAMES = ['a', 'b']
def ty(objs): return R.Ty(*[R.Ob(n, z) for n, z in objs])

@st.composite
def snaky(draw, max_layers=8):
    dom = [(draw(st.sampled_from(NAMES)), draw(st.integers(-1, 1))) for _ in range(draw(st.integers(0, 3)))]
    scan = list(dom); layers = []
    for k in range(draw(st.integers(1, max_layers))):
        kinds = ['box'] + (['cap'] if len(scan) <= 4 else [])
        # cups possible?
        cup_pos = [i for i in range(len(scan)-1) if scan[i][0] == scan[i+1][0] and abs(scan[i][1]-scan[i+1][1]) == 1]
        if cup_pos: kinds += ['cup', 'cup', 'cup']
        kind = draw(st.sampled_from(kinds))
        if kind == 'cup':
            i = draw(st.sampled_from(cup_pos))
            layers.append(('cup', scan[i], scan[i+1], i)); scan = scan[:i] + scan[i+2:]
        elif kind == 'cap':
            n = draw(st.sampled_from(NAMES)); z = draw(st.integers(-1, 1)); dz = draw(st.sampled_from([-1, 1]))
            i = draw(st.integers(0, len(scan)))
            layers.append(('cap', (n, z), (n, z+dz), i)); scan = scan[:i] + [(n, z), (n, z+dz)] + scan[i:]
        else:
            nd = draw(st.integers(0, min(2, len(scan)))); i = draw(st.integers(0, len(scan)-nd))
            cod = [(draw(st.sampled_from(NAMES)), draw(st.integers(-1, 1))) for _ in range(draw(st.integers(0, 2 if len(scan) <= 5 else 0)))]
            if nd == 1 and draw(st.booleans()): cod = [scan[i]]  # type-preserving box to allow snakes through
            layers.append(('box', 'f%d' % draw(st.integers(0, 2)), tuple(scan[i:i+nd]), tuple(cod), i)); scan = scan[:i] + cod + scan[i+nd:]
    return dom, layers, scan

def build(spec):
    dom, layers, cod = spec
    boxes, offs = [], []
    for l in layers:
        if l[0] == 'cup': boxes.append(R.Cup(ty([l[1]]), ty([l[2]]))); offs.append(l[3])
        elif l[0] == 'cap': boxes.append(R.Cap(ty([l[1]]), ty([l[2]]))); offs.append(l[3])
        else: boxes.append(R.Box(l[1], ty(l[2]), ty(l[3]))); offs.append(l[4])
    return R.Diagram(ty(dom), ty(cod), boxes, offs)

DIM = {'a': 2, 'b': 2}
def arr(box):
    rng = np.random.RandomState(abs(hash((str(box.name), str(box.dom), str(box.cod)))) % (2**31))
    shape = [DIM[o.name] for o in box.dom] + [DIM[o.name] for o in box.cod]
    return rng.randint(-2, 3, size=shape or (1,))
def ref_eval(d):
    dims = lambda t: [DIM[o.name] for o in t]
    n = int(np.prod(dims(d.dom) or [1])); Mx = np.eye(n, dtype=np.int64)
    scan = list(d.dom)
    for box, off in zip(d.boxes, d.offsets):
        l = int(np.prod(dims(scan[:off]) or [1])); r = int(np.prod(dims(scan[off+len(box.dom):]) or [1]))
        di = int(np.prod(dims(box.dom) or [1])); do = int(np.prod(dims(box.cod) or [1]))
        if isinstance(box, R.Cup): B = np.eye(DIM[box.dom[0].name], dtype=np.int64).reshape(di, 1)
        elif isinstance(box, R.Cap): B = np.eye(DIM[box.cod[0].name], dtype=np.int64).reshape(1, do)
        else: B = arr(box).reshape(di, do)
        Mx = Mx @ np.kron(np.kron(np.eye(l, dtype=np.int64), B), np.eye(r, dtype=np.int64))
        scan = scan[:off] + list(box.cod) + scan[off+len(box.dom):]
    return Mx
import os
os.environ['PYTHONHASHSEED'] = '0'
stats = collections.Counter(); buckets = collections.defaultdict(list)
@settings(max_examples=1500, deadline=None, suppress_health_check=list(HealthCheck), database=None)
@given(snaky())
def test(spec):
    import signal
    d = build(spec)
    def onalarm(*a): raise TimeoutError('hang')
    signal.signal(signal.SIGALRM, onalarm); signal.alarm(5)
    ncap = sum(isinstance(b, R.Cap) for b in d.boxes); ncup = sum(isinstance(b, R.Cup) for b in d.boxes)
    stats['cases'] += 1
    if ncap and ncup: stats['capcup'] += 1
    E0 = ref_eval(d)
    try:
        steps = []
        cache = set(); cur = d
        for s in d.normalize():
            steps.append(s)
            if s in cache: raise NotImplementedError
            cache.add(s)
            assert s.dom == d.dom and s.cod == d.cod
            if len(steps) > 500: raise RuntimeError('too many steps')
        nf = steps[-1] if steps else d
        if len(nf) < len(d): stats['removed'] += 1
        for s in steps:
            assert np.array_equal(ref_eval(s), E0), 'semantics'
    except NotImplementedError:
        stats['NIE'] += 1
    except TimeoutError:
        buckets['HANG'].append(str(d)); print('HANG', d, flush=True)
    except AssertionError as e:
        buckets['assert ' + str(e)].append(str(d)); 
    except Exception as e:
        tb = traceback.extract_tb(e.__traceback__)
        fr = [f for f in tb if '/discopy/' in f.filename][-1]
        buckets['%s @%s:%d' % (type(e).__name__, os.path.basename(fr.filename), fr.lineno)].append(str(d))
try:
    test()
finally:
    import signal; signal.alarm(0)
print(stats)
for k, v in buckets.items():
    print(k, len(v)); print('   ', min(v, key=len))
