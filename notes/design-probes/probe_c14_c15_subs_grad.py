import warnings; warnings.filterwarnings("ignore")
import numpy as np, sympy
from sympy.abc import phi, psi
from discopy.quantum import *
from discopy.quantum.gates import Scalar, MixedScalar
from discopy.quantum import zx
def tryit(label, f):
    try: print(label, f())
    except Exception as e: print(label, 'ERR', type(e).__name__, str(e)[:150])
tryit('rx subs', lambda: Rx(phi).subs(phi, 0.3).eval().array)
tryit('rx dagger subs flag', lambda: (Rx(phi).dagger().subs(phi, 0.3), Rx(-0.3)))
tryit('scalar mixed subs', lambda: repr(scalar(phi, is_mixed=True).subs(phi, 0.5)))
tryit('mixedscalar subs', lambda: repr(MixedScalar(phi).subs(phi, 0.5)))
tryit('scalar lambdify', lambda: repr(scalar(phi, is_mixed=True).lambdify(phi)(0.5)))
tryit('sqrt subs', lambda: repr(sqrt(phi).subs(phi, 4)))
tryit('crz subs eval', lambda: CRz(phi).subs(phi, 0.25).eval().array.flatten())
tryit('circ symbolic eval then subs', lambda: (Ket(0) >> Rx(phi) >> Rz(psi)).eval().subs(phi, 0.25).subs(psi, .5).array)
tryit('circ subs then eval', lambda: (Ket(0) >> Rx(phi) >> Rz(psi)).subs(phi, 0.25).subs(psi, .5).eval().array)
tryit('subs list pairs', lambda: (Ket(0) >> Rx(phi) >> Rz(psi)).subs([(phi, 0.25), (psi, .5)]).eval().array)
tryit('free_symbols', lambda: (Ket(0) >> Rx(phi) >> Rz(psi)).free_symbols)
tryit('lambdify', lambda: (Ket(0) >> Rx(phi) >> Rz(psi)).lambdify(phi, psi)(0.25, .5))
tryit('zx subs', lambda: (zx.Z(1,2,phi) >> zx.X(1,1,psi) @ zx.Id(1)).subs(phi, 0.3))
tryit('zx lambdify', lambda: (zx.Z(1,2,phi) >> zx.X(1,1,psi) @ zx.Id(1)).lambdify(phi, psi)(0.3, 0.1))
tryit('zx scalar lambdify', lambda: zx.scalar(phi).lambdify(phi)(0.3))
tryit('classical subs', lambda: ClassicalGate('f', 1, 1, [phi, 0, 0, 1]).dagger().subs(phi, 2))
tryit('classical subs dagger kept?', lambda: ClassicalGate('f', 1, 2, [phi, 0, 0, 1,0,0,0,0]).dagger().subs(phi, 2).dom)
tryit('mixed eval symbolic', lambda: (Ket(0) >> Rx(phi) >> Measure()).eval().subs(phi, .25).array)
tryit('grad rx mixed', lambda: (Ket(0) >> Rx(phi) >> Measure()).grad(phi).eval().subs(phi, .3).array)
tryit('grad rx pure', lambda: (Ket(0) >> Rx(phi)).grad(phi, mixed=False).eval().subs(phi, .3).array)
tryit('grad nonlinear', lambda: (Ket(0) >> Rx(phi**2)).grad(phi, mixed=False).eval().subs(phi, .3).array)
tryit('grad scalar', lambda: (scalar(phi**2) @ Ket(0)).grad(phi, mixed=False).eval().array)
tryit('grad scalar default', lambda: (scalar(phi**2) @ Ket(0)).grad(phi).eval().array)
tryit('tensor bubble', lambda: None)
