import numpy as np
from discopy import tensor
from discopy.rigid import PRO
from discopy.quantum import zx, circuit as C, gates as G
from discopy.quantum.zx import circuit2zx

def spider_array(kind, n_in, n_out, phase):
    n = n_in + n_out
    arr = np.zeros((2,)*n if n else (1,), dtype=complex)
    if n == 0:
        arr[0] = 1 + np.exp(2j*np.pi*phase); return arr
    arr[(0,)*n] = 1; arr[(1,)*n] = np.exp(2j*np.pi*phase)
    if kind == 'X':
        Hm = np.array([[1,1],[1,-1]])/np.sqrt(2)
        for ax in range(n):
            arr = np.moveaxis(np.tensordot(arr, Hm, ([ax],[0])), -1, ax)
    return arr

def zx_ar(box):
    if isinstance(box, zx.Spider):
        return spider_array(box._name, len(box.dom), len(box.cod), box.phase)
    if isinstance(box, zx.Had):
        return np.array([[1,1],[1,-1]])/np.sqrt(2)
    if isinstance(box, zx.Scalar):
        return np.array([box.data])
    raise TypeError(box)

F = tensor.Functor(ob={PRO(1): 2}, ar=zx_ar)

def prop(a, b):
    a, b = a.flatten(), b.flatten()
    i = np.argmax(abs(b))
    if abs(b[i]) < 1e-12: return np.allclose(a, 0), None
    k = a[i]/b[i]
    return (abs(k) > 1e-9 and np.allclose(a, k*b)), k

for g in [G.H, G.X, G.Y, G.Z, G.CX, G.CZ, G.SWAP, G.Rz(0.3), G.Rx(0.3), G.CRz(0.3), G.CRx(0.3), G.CU1(0.3), G.Ket(0,1), G.Bra(1,0), G.S, G.T, G.Ry(0.3)]:
    try:
        z = circuit2zx(g)
        print(g, prop(F(z).array, g.eval().array))
    except Exception as e:
        print(g, 'ERR', type(e).__name__, e)
print("--- halved")
from discopy.quantum.zx import Z, X, Id
for ph in [0.3, 0.77, -0.2]:
    crz = Z(1, 2) @ Z(1, 2, ph/2) >> Id(1) @ (X(2, 1) >> Z(1, 0, -ph/2)) @ Id(1)
    print(prop(F(crz).array, G.CRz(ph).eval().array))
    crx = X(1, 2) @ X(1, 2, ph/2) >> Id(1) @ (Z(2, 1) >> X(1, 0, -ph/2)) @ Id(1)
    print('crx as-is shape', prop(F(crx).array, G.CRx(ph).eval().array))
    crx2 = Z(1, 2) @ X(1, 2, ph/2) >> Id(1) @ (Z(2, 1) >> X(1, 0, -ph/2)) @ Id(1)
    print('crx2', prop(F(crx2).array, G.CRx(ph).eval().array))
    crx3 = Z(1, 2) @ zx.H @ Z(1, 2, ph/2) >> Id(1) @ (X(2, 1) >> Z(1, 0, -ph/2)) @ zx.H 
    cu1 = Z(1, 2, ph/2) @ Z(1, 2, ph/2) >> Id(1) @ (X(2, 1) >> Z(1, 0, -ph/2)) @ Id(1)
    print(prop(F(cu1).array, G.CU1(ph).eval().array))
