import sys; import os; sys.path.insert(0, os.path.dirname(os.path.abspath(__file__)))
from gen import *
from hypothesis import given, settings, HealthCheck, seed
from discopy.rewriting import InterchangerError
import itertools, collections

def connected_graph(d):
    # every box connected to one another via wires (graph connectivity) & no open-wire-only components? just box connectivity
    n = len(d)
    if n <= 1: return True
    # wire owners
    scan = [('in', i) for i in range(len(d.dom))]
    adj = collections.defaultdict(set)
    for k, (b, off) in enumerate(zip(d.boxes, d.offsets)):
        for w in scan[off:off+len(b.dom)]:
            if w[0] == 'box':
                adj[k].add(w[1]); adj[w[1]].add(k)
        scan = scan[:off] + [('box', k)]*len(b.cod) + scan[off+len(b.dom):]
    seen = {0}; todo=[0]
    while todo:
        x = todo.pop()
        for y in adj[x]:
            if y not in seen: seen.add(y); todo.append(y)
    return len(seen) == n

stats = collections.Counter()
@settings(max_examples=3000, deadline=None, suppress_health_check=list(HealthCheck), database=None)
@given(mdiagram(max_boxes=6, max_width=3), st.data())
def test_nf(d, data):
    well_typed(d)
    if not connected_graph(d):
        stats['disc'] += 1
        return
    stats['conn'] += 1
    # random walk of interchanges
    e = d
    for _ in range(data.draw(st.integers(0, 8))):
        if len(e) < 2: break
        i = data.draw(st.integers(0, len(e)-2))
        lf = data.draw(st.booleans())
        try:
            e2 = e.interchange(i, i+1, left=lf) if data.draw(st.booleans()) else e.interchange(i+1, i, left=lf)
            well_typed(e2)
            if e2 != e: stats['moved'] += 1
            e = e2
        except InterchangerError:
            pass
    for left in (False, True):
        try:
            n1 = d.normal_form(left=left)
            n2 = e.normal_form(left=left)
        except NotImplementedError:
            stats['NIE'] += 1
            raise
        well_typed(n1)
        assert n1 == n2, (d, e, n1, n2)
        assert n1.normal_form(left=left) == n1
test_nf()
print(stats)
