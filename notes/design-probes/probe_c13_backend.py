import sys; import os; sys.path.insert(0, os.path.dirname(os.path.abspath(__file__)))
from tksim import *
from discopy.quantum import *
from discopy.quantum.tk import mockBackend
from unittest.mock import Mock
def exact_backend():
    store = []
    def process_circuits(circs, n_shots=None, seed=None):
        hs = []
        for c in circs:
            store.append({k: v*(n_shots or 1) for k, v in simulate(c).items()}); hs.append(len(store)-1)
        return hs
    def get_result(h):
        r = Mock(); r.get_counts.return_value = store[h]; return r
    m = Mock(); m.process_circuits = process_circuits; m.get_result = get_result
    return m
tests = [
 Ket(0, 0) >> sqrt(2) @ H @ Rx(0.3) >> CX >> Measure() @ Bra(0),
 Ket(0) >> H >> Measure(),
 H @ X >> CX >> Measure(2),
 Ket(1, 0) >> CX >> Id(1) @ Ket(0) @ Id(1) >> Measure(3),
 Ket(0) @ Ket(1) >> H @ Id(1) >> SWAP >> Measure() @ Measure(),
 Ket(0) >> H >> Measure() >> ClassicalGate('not', 1, 1, [0,1,1,0]),
 Ket(0,0) >> H @ H >> Measure() @ Discard(),
 Rz(0.2) >> Rx(0.7) >> Measure(),
]
for c in tests:
    loc = c.init_and_discard().eval(mixed=True)
    try:
        be = c.eval(exact_backend())
        print(np.allclose(loc.array, be.array), loc.array.flatten().round(3), be.array.flatten().round(3))
    except Exception as e:
        import traceback; traceback.print_exc()
        print('ERR', c, type(e).__name__, e)
