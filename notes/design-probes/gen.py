import warnings; warnings.filterwarnings("ignore")
from hypothesis import strategies as st
from discopy import monoidal as M

OBS = ['a', 'b', 'c']
@st.composite
def mdiagram(draw, max_boxes=6, max_width=4, obs=OBS, mod=M, connected=False):
    dom = [draw(st.sampled_from(obs)) for _ in range(draw(st.integers(0, max_width)))]
    scan = list(dom); boxes = []; offs = []
    nb = draw(st.integers(0, max_boxes))
    for k in range(nb):
        lo = 1 if (connected and k > 0) else 0
        nd = draw(st.integers(min(lo, len(scan)), min(3, len(scan))))
        if connected and k > 0 and nd == 0:
            break
        off = draw(st.integers(0, len(scan) - nd))
        nc = draw(st.integers(1 if connected else 0, 3))
        cod = [draw(st.sampled_from(obs)) for _ in range(nc)]
        name = draw(st.sampled_from(['f', 'g', 'h']))
        b = mod.Box(name, mod.Ty(*scan[off:off+nd]), mod.Ty(*cod))
        if draw(st.booleans()) and not connected:
            b = b.dagger().dagger() if False else b
        boxes.append(b); offs.append(off)
        scan = scan[:off] + cod + scan[off+nd:]
    return mod.Diagram(mod.Ty(*dom), mod.Ty(*scan), boxes, offs)

def well_typed(d):
    scan = d.dom
    assert len(d.boxes) == len(d.offsets) == len(d.layers)
    assert d.layers.dom == d.dom, (d.layers.dom, d.dom)
    assert d.layers.cod == d.cod
    for box, off, layer in zip(d.boxes, d.offsets, d.layers.boxes):
        assert off >= 0
        assert scan[off:off+len(box.dom)] == box.dom, (scan, off, box.dom)
        l, b, r = layer
        assert l == scan[:off] and r == scan[off+len(box.dom):] and b == box, (layer, scan, off)
        assert layer.dom == scan
        scan = scan[:off] @ box.cod @ scan[off+len(box.dom):]
        assert layer.cod == scan
    assert scan == d.cod, (scan, d.cod)
