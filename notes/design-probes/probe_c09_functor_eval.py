import sys; import os; sys.path.insert(0, os.path.dirname(os.path.abspath(__file__)))
import warnings; warnings.filterwarnings("ignore")
import numpy as np, collections, traceback, os
from hypothesis import given, settings, HealthCheck, strategies as st
from discopy import rigid as R, tensor as T
NAMES = ['a', 'b', 'c']
def ty(objs): return R.Ty(*[R.Ob(n, z) for n, z in objs])
@st.composite
def rdiag(draw):
    dims = {n: draw(st.integers(1, 3)) for n in NAMES}
    dom = [(draw(st.sampled_from(NAMES)), draw(st.integers(-1, 1))) for _ in range(draw(st.integers(0, 3)))]
    scan = list(dom); layers = []; arrays = {}
    for k in range(draw(st.integers(1, 6))):
        kinds = ['box', 'box']
        if len(scan) <= 3: kinds.append('cap')
        cup_pos = [i for i in range(len(scan)-1) if scan[i][0] == scan[i+1][0] and abs(scan[i][1]-scan[i+1][1]) == 1]
        if cup_pos: kinds.append('cup')
        if len(scan) >= 2: kinds.append('swap')
        kind = draw(st.sampled_from(kinds))
        if kind == 'cup':
            i = draw(st.sampled_from(cup_pos)); layers.append(('cup', scan[i], scan[i+1], i)); scan = scan[:i] + scan[i+2:]
        elif kind == 'cap':
            n = draw(st.sampled_from(NAMES)); z = draw(st.integers(-1, 1)); dz = draw(st.sampled_from([-1, 1])); i = draw(st.integers(0, len(scan)))
            layers.append(('cap', (n, z), (n, z+dz), i)); scan = scan[:i] + [(n, z), (n, z+dz)] + scan[i:]
        elif kind == 'swap':
            i = draw(st.integers(0, len(scan)-2)); layers.append(('swap', scan[i], scan[i+1], i)); scan = scan[:i] + [scan[i+1], scan[i]] + scan[i+2:]
        else:
            nd = draw(st.integers(0, min(2, len(scan)))); i = draw(st.integers(0, len(scan)-nd))
            cod = [(draw(st.sampled_from(NAMES)), draw(st.integers(-1, 1))) for _ in range(draw(st.integers(0, 2 if len(scan) <= 4 else 0)))]
            name = 'f%d' % draw(st.integers(0, 2)); dag = draw(st.booleans())
            key = (name, tuple(scan[i:i+nd]), tuple(cod)) if not dag else (name, tuple(cod), tuple(scan[i:i+nd]))
            if key not in arrays:
                shape = [dims[n] for n, _ in key[1]] + [dims[n] for n, _ in key[2]]
                size = int(np.prod(shape or [1]))
                vals = draw(st.lists(st.integers(-2, 2), min_size=2*size, max_size=2*size))
                arrays[key] = (np.array(vals[:size]) + 1j*np.array(vals[size:])).reshape(shape or (1,))
            layers.append(('box', name, tuple(scan[i:i+nd]), tuple(cod), i, dag)); scan = scan[:i] + cod + scan[i+nd:]
    return dims, dom, layers, scan, arrays
def build(spec):
    dims, dom, layers, cod, arrays = spec
    boxes, offs = [], []
    for l in layers:
        if l[0] == 'cup': boxes.append(R.Cup(ty([l[1]]), ty([l[2]]))); offs.append(l[3])
        elif l[0] == 'cap': boxes.append(R.Cap(ty([l[1]]), ty([l[2]]))); offs.append(l[3])
        elif l[0] == 'swap': boxes.append(R.Swap(ty([l[1]]), ty([l[2]]))); offs.append(l[3])
        else:
            if l[5]: boxes.append(R.Box(l[1], ty(l[3]), ty(l[2])).dagger())
            else: boxes.append(R.Box(l[1], ty(l[2]), ty(l[3])))
            offs.append(l[4])
    return R.Diagram(ty(dom), ty(cod), boxes, offs)
def ref_eval(spec):
    dims, dom, layers, cod, arrays = spec
    D = lambda ws: int(np.prod([dims[n] for n, _ in ws] or [1]))
    M = np.eye(D(dom), dtype=complex); scan = list(dom)
    for l in layers:
        if l[0] == 'cup': i = l[3]; nd, B, new = 2, np.eye(dims[l[1][0]]).reshape(-1, 1), []
        elif l[0] == 'cap': i = l[3]; nd, B, new = 0, np.eye(dims[l[1][0]]).reshape(1, -1), [l[1], l[2]]
        elif l[0] == 'swap':
            i = l[3]; nd = 2; da, db = dims[l[1][0]], dims[l[2][0]]
            B = np.zeros((da*db, da*db));
            for x in range(da):
                for y in range(db): B[x*db+y, y*da+x] = 1
            new = [l[2], l[1]]
        else:
            i = l[4]; nd = len(l[2]); new = list(l[3])
            if l[5]:
                A = arrays[(l[1], l[3], l[2])].reshape(D(l[3]), D(l[2])); B = A.conj().T
            else: B = arrays[(l[1], l[2], l[3])].reshape(D(l[2]), D(l[3]))
        M = M @ np.kron(np.kron(np.eye(D(scan[:i])), B), np.eye(D(scan[i+nd:])))
        scan = scan[:i] + new + scan[i+nd:]
    return M
stats = collections.Counter(); buckets = collections.defaultdict(list)
@settings(max_examples=2500, deadline=None, suppress_health_check=list(HealthCheck), database=None)
@given(rdiag(), st.booleans(), st.booleans())
def test(spec, as_dim, as_callable):
    dims, dom, layers, cod, arrays = spec
    d = build(spec)
    ob = {R.Ty(n): (T.Dim(v) if as_dim else v) for n, v in dims.items()}
    ar = {}
    for (name, bd, bc), A in arrays.items(): ar[R.Box(name, ty(bd), ty(bc))] = A
    if as_callable:
        ob_d, ar_d = ob, ar
        ob = lambda t: ob_d[t]; ar = lambda b: ar_d[b]
    stats['cases'] += 1
    try:
        F = T.Functor(ob, ar)
        out = F(d)
        E = ref_eval(spec)
        got = np.array(out.array, dtype=complex).reshape(E.shape)
        if not np.array_equal(got, E): buckets['mismatch'].append(str(d)); return
        exp_dom = [dims[n] for n, _ in dom if dims[n] != 1]; exp_cod = [dims[n] for n, _ in cod if dims[n] != 1]
        if list(out.dom) != exp_dom or list(out.cod) != exp_cod: buckets['domcod'].append(str(d)); return
        stats['ok'] += 1
        if len(set(dims.values())) > 1 and any(l[0] in ('swap', 'cup', 'cap') for l in layers) and len(layers) >= 3: stats['nontrivial'] += 1
    except Exception as e:
        tb = traceback.extract_tb(e.__traceback__)
        fr = ([f for f in tb if '/discopy/' in f.filename] or tb)[-1]
        buckets['%s %s @%s:%d' % (type(e).__name__, str(e)[:60], os.path.basename(fr.filename), fr.lineno)].append(str(d) + ' dims=%s' % dims)
test()
print(stats)
for k, v in sorted(buckets.items(), key=lambda kv: -len(kv[1])):
    print(len(v), k); print('      ', min(v, key=len))
