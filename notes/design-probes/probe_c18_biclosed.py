import sys; import os; sys.path.insert(0, os.path.dirname(os.path.abspath(__file__)))
import warnings; warnings.filterwarnings("ignore")
import collections, traceback, os
from hypothesis import given, settings, HealthCheck, strategies as st
from discopy import biclosed as B, rigid as R
from discopy.biclosed import biclosed2rigid
from gen import well_typed
atoms = st.sampled_from(['x', 'y', 'z']).map(lambda n: ('atom', n))
types = st.recursive(atoms, lambda ch: st.one_of(
    st.tuples(st.just('over'), ch, ch), st.tuples(st.just('under'), ch, ch),
    st.lists(ch, min_size=0, max_size=2).map(lambda l: ('tensor', l))), max_leaves=5)
def bty(t):
    if t[0] == 'atom': return B.Ty(t[1])
    if t[0] == 'over': return bty(t[1]) << bty(t[2])
    if t[0] == 'under': return bty(t[1]) >> bty(t[2])
    return B.Ty().tensor(*[bty(x) for x in t[1]]) if t[1] else B.Ty()
def T(t):  # harness translation -> list of (name, z)
    if t[0] == 'atom': return [(t[1], 0)]
    l = lambda ws: [(n, z-1) for n, z in reversed(ws)]
    r = lambda ws: [(n, z+1) for n, z in reversed(ws)]
    if t[0] == 'over': return T(t[1]) + l(T(t[2]))
    if t[0] == 'under': return r(T(t[1])) + T(t[2])
    return [w for x in t[1] for w in T(x)]
def key(rt): return [(o.name, o.z) for o in rt.objects]
stats = collections.Counter(); buckets = collections.defaultdict(list)
@settings(max_examples=3000, deadline=None, suppress_health_check=list(HealthCheck), database=None)
@given(st.sampled_from(['ty', 'fa', 'ba', 'fc', 'bc', 'fx', 'bx', 'curry', 'curryl']), types, types, types, st.integers(1, 3))
def test(kind, a, b, c, n):
    stats[kind] += 1
    try:
        if kind == 'ty':
            got = key(biclosed2rigid(bty(a))); assert got == T(a), (got, T(a)); return
        if kind == 'fa': d = B.Diagram.fa(bty(a), bty(b)); dom, cod = T(('tensor', [('over', a, b), b])), T(a)
        if kind == 'ba': d = B.Diagram.ba(bty(a), bty(b)); dom, cod = T(('tensor', [a, ('under', a, b)])), T(b)
        if kind == 'fc': d = B.Diagram.fc(bty(a), bty(b), bty(c)); dom, cod = T(('tensor', [('over', a, b), ('over', b, c)])), T(('over', a, c))
        if kind == 'bc': d = B.Diagram.bc(bty(a), bty(b), bty(c)); dom, cod = T(('tensor', [('under', a, b), ('under', b, c)])), T(('under', a, c))
        if kind == 'fx': d = B.Diagram.fx(bty(a), bty(b), bty(c)); dom, cod = T(('tensor', [('over', a, b), ('under', c, b)])), T(('under', c, a))
        if kind == 'bx': d = B.Diagram.bx(bty(a), bty(b), bty(c)); dom, cod = T(('tensor', [('over', b, a), ('under', b, c)])), T(('over', c, a))
        if kind in ('curry', 'curryl'):
            dm = bty(('tensor', [a, b, c]))
            f = B.Box('f', dm, bty(a))
            if n > len(dm): return
            d = B.Diagram.curry(f, n, left=(kind == 'curryl'))
            dom, cod = None, None
        F = biclosed2rigid(d)
        well_typed(F)
        assert key(F.dom) == key(biclosed2rigid(d.dom)), ('dom', key(F.dom), key(biclosed2rigid(d.dom)))
        assert key(F.cod) == key(biclosed2rigid(d.cod)), ('cod', key(F.cod), key(biclosed2rigid(d.cod)))
        if dom is not None:
            assert key(F.dom) == dom and key(F.cod) == cod, ('model', key(F.dom), dom, key(F.cod), cod)
        stats['ok'] += 1
    except AssertionError as e:
        buckets['%s assert %s' % (kind, str(e)[:40])].append('%s %s %s %s' % (bty(a), bty(b), bty(c), n))
    except Exception as e:
        tb = traceback.extract_tb(e.__traceback__)
        fr = ([f for f in tb if '/discopy/' in f.filename] or tb)[-1]
        buckets['%s %s %s @%s:%d' % (kind, type(e).__name__, str(e)[:50], os.path.basename(fr.filename), fr.lineno)].append('%s | %s | %s | %s' % (bty(a), bty(b), bty(c), n))
test()
print(stats)
for k, v in sorted(buckets.items(), key=lambda kv: -len(kv[1])):
    print(len(v), k); print('      ', min(v, key=len))
