import sys; import os; sys.path.insert(0, os.path.dirname(os.path.abspath(__file__)))
import pyzx_adapter
import numpy as np
from discopy.quantum.zx import *
bialgebra = Z(1, 2, .25) @ Z(1, 2, .75) >> Id(1) @ SWAP @ Id(1) >> X(2, 1, .5) @ X(2, 1, .5)
g = bialgebra.to_pyzx()
print(g.inputs, g.outputs, g.phase(2), type(g.phase(2)))
m = g.to_matrix(strategy="naive")
print(m.shape)
d = Diagram.from_pyzx(g)
print(d == bialgebra, d)
k = np.exp(np.pi / 4 * 1j)
m = (scalar(k) @ scalar(k) @ Id(1)).to_pyzx().to_matrix(strategy="naive")
print(m)
