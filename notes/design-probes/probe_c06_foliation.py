import sys; import os; sys.path.insert(0, os.path.dirname(os.path.abspath(__file__)))
from gen import *
from hypothesis import given, settings, HealthCheck
import collections, traceback, os
from discopy import monoidal as M
stats = collections.Counter(); buckets = collections.defaultdict(list)
def wiring(d):
    scan = [('in', i) for i in range(len(d.dom))]; edges = []
    for k, (b, off) in enumerate(zip(d.boxes, d.offsets)):
        for p, w in enumerate(scan[off:off+len(b.dom)]): edges.append((w, (id(b), 'd', p)))
        scan = scan[:off] + [(id(b), 'c', p) for p in range(len(b.cod))] + scan[off+len(b.dom):]
    for i, w in enumerate(scan): edges.append((w, ('out', i)))
    return sorted(map(str, edges))
@settings(max_examples=2500, deadline=None, suppress_health_check=list(HealthCheck), database=None)
@given(mdiagram(max_boxes=6, max_width=3))
def test(d):
    stats['cases'] += 1
    # make boxes unique objects for wiring by id: rebuild with distinct names
    boxes = [M.Box('%s%d' % (b.name, i), b.dom, b.cod) for i, b in enumerate(d.boxes)]
    d = M.Diagram(d.dom, d.cod, boxes, d.offsets)
    try:
        steps = list(d.foliate())
        for s in steps: well_typed(s); assert s.dom == d.dom and s.cod == d.cod
        fol = d.foliation(); well_typed(fol)
        flat = fol.flatten(); well_typed(flat)
        assert sorted(b.name for b in flat.boxes) == sorted(b.name for b in d.boxes), 'boxes'
        # wiring by name
        def wn(x):
            scan = [('in', i) for i in range(len(x.dom))]; edges = []
            for b, off in zip(x.boxes, x.offsets):
                for p, w in enumerate(scan[off:off+len(b.dom)]): edges.append((w, (b.name, 'd', p)))
                scan = scan[:off] + [(b.name, 'c', p) for p in range(len(b.cod))] + scan[off+len(b.dom):]
            for i, w in enumerate(scan): edges.append((w, ('out', i)))
            return sorted(map(str, edges))
        assert wn(flat) == wn(d), 'wiring'
        assert d.depth() == len(fol.boxes), 'depth'
        for sl in fol.boxes:
            well_typed(sl)
            # depth-1: boxes side by side: each box's inputs come from slice dom
            scan = ['in'] * len(sl.dom)
            for b, off in zip(sl.boxes, sl.offsets):
                assert all(w == 'in' for w in scan[off:off+len(b.dom)]), 'slice not depth1'
                scan = scan[:off] + ['out'] * len(b.cod) + scan[off+len(b.dom):]
        if steps: assert steps[-1] == flat, 'last foliate step != flatten'
        stats['ok'] += 1
        if len(fol.boxes) < len(d.boxes): stats['merged'] += 1
    except AssertionError as e:
        buckets['assert %s' % str(e)[:40]].append(str(d))
    except Exception as e:
        tb = traceback.extract_tb(e.__traceback__)
        fr = ([f for f in tb if '/discopy/' in f.filename] or tb)[-1]
        buckets['%s %s @%s:%d' % (type(e).__name__, str(e)[:60], os.path.basename(fr.filename), fr.lineno)].append(str(d))
test()
print(stats)
for k, v in sorted(buckets.items(), key=lambda kv: -len(kv[1])):
    print(len(v), k); print('      ', min(v, key=len)[:600])
