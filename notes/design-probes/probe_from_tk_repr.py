import warnings; warnings.filterwarnings("ignore")
import numpy as np, pytket as tk
from discopy.quantum import *
from discopy import rigid as R, monoidal as M, cat
def tryit(label, f):
    try: print(label, '->', f())
    except Exception as e: print(label, 'ERR', type(e).__name__, str(e)[:160])
c = Circuit.from_tk(tk.Circuit(2).H(0).CX(0,1))
tryit('from_tk no measure eval', lambda: c.eval().array.flatten().round(3))
c2 = Circuit.from_tk(tk.Circuit(2,2).H(0).CX(0,1).Measure(0,0).Measure(1,1))
tryit('from_tk measure', lambda: str(c2))
tryit('from_tk measure eval', lambda: c2.eval().array.flatten().round(3))
rt = (Ket(0,0) >> H @ Id(1) >> CX >> Measure(2))
tryit('roundtrip', lambda: Circuit.from_tk(rt.to_tk()).eval().array.flatten().round(3))
# rigid repr eval
n = R.Ty('n')
d = R.Box('f', n.l @ n, n.r.r, data={'a': [1, 2.5]}).dagger() @ R.Cup(n, n.r) >> R.Swap(n.r.r, n) if False else None
d = R.Id(n.l) @ R.Cap(n, n.l) >> R.Swap(n.l, n) @ R.Id(n.l)
tryit('rigid repr', lambda: repr(d))
tryit('rigid eval repr', lambda: eval(repr(d), vars(R)) == d)
tryit('rigid ob in ty eq', lambda: (R.Ty(R.Ob('n', z=0)) == R.Ty('n'), hash(R.Ty(R.Ob('n'))) == hash(R.Ty('n'))))
tryit('mon vs rigid ty', lambda: (M.Ty('n') == R.Ty('n'), R.Ty('n') == M.Ty('n'), hash(M.Ty('n')) == hash(R.Ty('n'))))
s = M.Box('f', M.Ty('x'), M.Ty('y')) + M.Box('g', M.Ty('x'), M.Ty('y'))
tryit('sum repr', lambda: eval(repr(s), vars(M)) == s)
tryit('empty sum repr', lambda: eval(repr(M.Sum([], M.Ty('x'), M.Ty('y'))), vars(M)) == M.Sum([], M.Ty('x'), M.Ty('y')))
tryit('cat sum hash', lambda: hash(cat.Sum([cat.Box('f', cat.Ob('x'), cat.Ob('y'))])))
b = M.Box('f', M.Ty('x'), M.Ty('y'))
one = M.Diagram(M.Ty('x'), M.Ty('y'), [b], [0])
tryit('box eq diag', lambda: (b == one, one == b, hash(b) == hash(one), {b: 1}.get(one)))
wide = M.Id(M.Ty('z')) @ b
tryit('box vs whiskered', lambda: (b == wide, wide == b))
