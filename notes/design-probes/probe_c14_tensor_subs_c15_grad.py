import warnings; warnings.filterwarnings("ignore")
import numpy as np, sympy
from sympy.abc import phi
from discopy.tensor import Tensor, Dim
from discopy import tensor
from discopy.quantum import *
def tryit(label, f):
    try: print(label, '->', f())
    except Exception as e: print(label, 'ERR', type(e).__name__, str(e)[:160])
tryit('tensor subs mixed entries', lambda: Tensor(Dim(1), Dim(2), [phi, 1]).subs(phi, 2))
tryit('tensor subs numeric', lambda: Tensor(Dim(1), Dim(2), [3, 1]).subs(phi, 2))
tryit('tensor grad numeric', lambda: Tensor(Dim(1), Dim(2), [phi**2, 1]).grad(phi))
b = tensor.Box('v', Dim(1), Dim(2), [phi, 1])
tryit('box subs eval', lambda: b.subs(phi, 2).eval())
tryit('box eval subs', lambda: b.eval().subs(phi, 2))
# C12 layout: pure doubled
c = Ket(0) @ Id(1) >> H @ Rx(0.3) >> CX >> S @ Id(1)
M = c.eval().array.reshape(2, 4)
D = c.eval(mixed=True)
print(D.dom, D.cod, D.array.shape)
print('doubled ok', np.allclose(D.array.reshape(4, 16), np.kron(M.conj(), M)))
# C15 simple check
x = sympy.Symbol('x', real=True)
circ = Ket(0) >> Rx(x) >> Measure()
g = circ.grad(x)
ev = circ.eval()
tryit('grad type', lambda: (type(g).__name__, len(g.terms)))
def num(arr, v): return np.array([complex(sympy.sympify(e).subs(x, v)) for e in np.array(arr).flatten()])
tryit('mixed grad vs deriv', lambda: (num(g.eval().array, .3).round(6), num([sympy.diff(e, x) for e in ev.array.flatten()], .3).round(6)))
circ2 = Ket(0) >> Rx(2*x+0.1) >> Rz(x**2)
g2 = circ2.grad(x, mixed=False)
tryit('pure grad vs deriv', lambda: (num(g2.eval().array, .3).round(6), num([sympy.diff(e, x) for e in circ2.eval().array.flatten()], .3).round(6)))
g3 = circ2.grad(x)
tryit('default grad of pure circ: is mixed?', lambda: (g3.is_mixed, type(g3.eval()).__name__))
tryit('default grad vs deriv CQ', lambda: (num(g3.eval().array, .3).round(5), num([sympy.diff(e, x) for e in circ2.eval(mixed=True).array.flatten()], .3).round(5)))
