import warnings; warnings.filterwarnings("ignore")
from discopy.rigid import *
from discopy import monoidal
n = Ty('n')
d = Id(n.r.r) @ Cap(n.r, n) >> Cup(n.r.r, n.r) @ Id(n)
print(d.dom, d.cod)
try:
    print(d.normal_form())
except Exception as e:
    print("ERR", type(e).__name__, e)
# daggered pair
d2 = Id(n) @ Cap(n.l, n) >> Cup(n, n.l) @ Id(n)
print(d2.normal_form())
# nested snake with obstruction
f = Box('f', n, n)
d3 = Cap(n, n.l) @ Id(n) >> Id(n) @ f.transpose() @ Id(n)  if False else None
# Cup with two wires types mismatch of find_snake: wire connecting cap leg to cup via boxes?
g = Box('g', n, n)
d4 = Id(n) @ Cap(n.r, n) >> Id(n) @ Box('h', n.r, n.r) @ Id(n) >> Cup(n, n.r) @ Id(n)
print(d4.normal_form())
