import warnings; warnings.filterwarnings("ignore")
import numpy as np
from discopy.quantum import *
for c in [Measure(), Measure(2), Measure(destructive=False), Measure(override_bits=True), Measure(1, False, True), Encode(), Encode(1, False), Encode(1, True, True), Discard(bit), MixedState(bit), Discard(bit @ qubit), MixedState(qubit @ bit)]:
    try:
        e = c.eval()
        print(c, c.dom, '->', c.cod, e.dom, e.cod, e.array.shape)
    except Exception as ex:
        print(c, 'ERR', type(ex).__name__, ex)
c = Ket(0) >> H >> Measure()
print(c.eval(), c.get_counts(), c.measure())
c = Ket(0,0) >> H @ Id(1) >> CX >> Measure() @ Discard()
print(c.get_counts(), c.measure())
c2 = (Ket(0) >> H) @ Bits(1) >> Measure(override_bits=True)
try: print(c2.eval())
except Exception as ex: print('ERR', type(ex).__name__, ex)
