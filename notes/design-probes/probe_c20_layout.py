import sys; import os; sys.path.insert(0, os.path.dirname(os.path.abspath(__file__)))
from gen import *
from hypothesis import given, settings, HealthCheck
from discopy.drawing import diagram2nx
import collections
stats = collections.Counter()
fails = []
def check(d):
    graph, pos = diagram2nx(d)
    kinds = collections.Counter(n.kind for n in graph.nodes)
    assert kinds['input'] == len(d.dom) and kinds['output'] == len(d.cod) and kinds['box'] == len(d)
    assert kinds['dom'] == sum(len(b.dom) for b in d.boxes), kinds
    assert kinds['cod'] == sum(len(b.cod) for b in d.boxes)
    assert set(pos) == set(graph.nodes)
    for s, t in graph.edges:
        assert pos[s][1] > pos[t][1], ('not downward', s, t)
        if s.kind in ('input', 'cod') and t.kind in ('dom', 'output'):
            assert pos[s][0] == pos[t][0], ('not vertical', s, t, pos[s], pos[t])
    # open wires at each height
    from discopy.drawing import Node
    scan = [Node("input", obj=o, i=i) for i, o in enumerate(d.dom)]
    def ordered(scan):
        xs = [pos[n][0] for n in scan]
        assert all(a < b for a, b in zip(xs, xs[1:])), ('order', xs)
    ordered(scan)
    for depth, (box, off) in enumerate(zip(d.boxes, d.offsets)):
        bn = Node("box", box=box, depth=depth)
        x = pos[bn][0]
        if off > 0: assert pos[scan[off-1]][0] < x, ('box left', depth)
        if off + len(box.dom) < len(scan): assert x < pos[scan[off+len(box.dom)]][0], ('box right', depth)
        # dom ports also between neighbours; cod ports between
        scan = scan[:off] + [Node("cod", obj=o, i=i, depth=depth) for i, o in enumerate(box.cod)] + scan[off+len(box.dom):]
        ordered(scan)
@settings(max_examples=3000, deadline=None, suppress_health_check=list(HealthCheck), database=None)
@given(mdiagram(max_boxes=7, max_width=4))
def test(d):
    if not len(d) and not len(d.dom): return
    check(d)
test()
print("ok")
