import warnings; warnings.filterwarnings("ignore")
import numpy as np
from discopy.quantum import *
from pytket.circuit import Op, OpType
print((Ket(0) >> Y).eval().array, "std Y|0> = [0, 1j]")
print((Ket(0) >> Ry(0.25)).eval().array, "std Ry(pi/2)|0> =", Op.create(OpType.Ry, [0.5]).get_unitary()[:,0])
print((Ket(0) >> S >> H).eval().array)
def M(c):
    n = len(c.dom); return c.eval().array.reshape(2**n, -1)
for g, op in [(H, Op.create(OpType.H)), (S, Op.create(OpType.S)), (T, Op.create(OpType.T)), (X, Op.create(OpType.X)), (Y, Op.create(OpType.Y)), (Z, Op.create(OpType.Z)),
              (CX, Op.create(OpType.CX)), (CZ, Op.create(OpType.CZ)), (SWAP, Op.create(OpType.SWAP)),
              (Rx(.3), Op.create(OpType.Rx, [.6])), (Ry(.3), Op.create(OpType.Ry, [.6])), (Rz(.3), Op.create(OpType.Rz, [.6])),
              (CRz(.3), Op.create(OpType.CRz, [.6])), (CRx(.3), Op.create(OpType.CRx, [.6])), (CU1(.3), Op.create(OpType.CU1, [.6]))]:
    U = op.get_unitary()
    print(g, 'M==U.T', np.allclose(M(g), U.T), 'M==U', np.allclose(M(g), U))
