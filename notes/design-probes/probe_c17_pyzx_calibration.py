import sys; import os; sys.path.insert(0, os.path.dirname(os.path.abspath(__file__)))
import pyzx_adapter
import numpy as np, pyzx
from discopy import tensor
from discopy.rigid import PRO
from discopy.quantum import zx
from discopy.quantum.zx import Z, X, H, Id, SWAP, scalar
exec(open(os.path.join(os.path.dirname(os.path.abspath(__file__)), 'probe_circuit2zx.py')).read().split("def prop")[0].split("from discopy.quantum.zx import circuit2zx")[1])  # spider_array, zx_ar, F
def pm(d):
    g = d.to_pyzx()
    return g.to_matrix(preserve_scalar=True, strategy='naive')
def mine(d):
    t = F(d); n, m = len(d.dom), len(d.cod)
    return t.array.reshape(2**n, 2**m)
tests = {
 'cx': Z(1, 2) @ Id(1) >> Id(1) @ X(2, 1),
 'zph': Z(1,1,.25) @ Id(1),
 'xph': Id(1) @ X(1,1,.25),
 'state': X(0,1,.5) @ Z(0,1,.125),
 'h': H @ Id(1) >> SWAP,
 'scal': scalar(0.5+0.5j) @ Z(1,2,.3),
 'z3': Z(2,1,.1) >> X(1,2,.2),
}
for k, d in tests.items():
    P, M = pm(d), mine(d)
    print(k, P.shape, M.shape, 'P==M.T', np.allclose(P, M.T), 'P==M', P.shape == M.shape and np.allclose(P, M))
    if not np.allclose(P, M.T):
        r = P.flatten()[np.argmax(abs(M.T.flatten()))] / M.T.flatten()[np.argmax(abs(M.T.flatten()))]
        print('   ratio', r, np.allclose(P, r * M.T))
# import
for k, d in tests.items():
    try:
        g = d.to_pyzx(); d2 = zx.Diagram.from_pyzx(g)
        print(k, 'import ok', len(d2.dom), len(d2.cod), np.allclose(mine(d2), mine(d)) )
    except Exception as e:
        print(k, 'import ERR', type(e).__name__, e)
