import sys; import os; sys.path.insert(0, os.path.dirname(os.path.abspath(__file__)))
import warnings; warnings.filterwarnings("ignore")
import collections, traceback, os
from hypothesis import given, settings, HealthCheck, strategies as st
from discopy import rigid as R
from gen import well_typed
NAMES = ['a', 'b', 'c']
def ty(objs): return R.Ty(*[R.Ob(n, z) for n, z in objs])
def key(t): return [(o.name, o.z) for o in t.objects]
def FT(obmap, ws):
    out = []
    for n, z in ws:
        img = list(obmap[n])
        if z % 2: img = img[::-1]
        out += [(m, w + z) for m, w in img]
    return out
@st.composite
def case(draw):
    obmap = {n: [(draw(st.sampled_from(['p', 'q'])), draw(st.integers(-1, 1))) for _ in range(draw(st.integers(0, 2)))] for n in NAMES}
    dom = [(draw(st.sampled_from(NAMES)), draw(st.integers(-1, 1))) for _ in range(draw(st.integers(0, 3)))]
    scan = list(dom); layers = []
    for k in range(draw(st.integers(1, 5))):
        kinds = ['box', 'box']
        if len(scan) <= 3: kinds.append('cap')
        cup_pos = [i for i in range(len(scan)-1) if scan[i][0] == scan[i+1][0] and abs(scan[i][1]-scan[i+1][1]) == 1]
        if cup_pos: kinds.append('cup')
        if len(scan) >= 2: kinds.append('swap')
        kind = draw(st.sampled_from(kinds))
        if kind == 'cup':
            i = draw(st.sampled_from(cup_pos)); layers.append(('cup', scan[i], scan[i+1], i)); scan = scan[:i] + scan[i+2:]
        elif kind == 'cap':
            n = draw(st.sampled_from(NAMES)); z = draw(st.integers(-1, 1)); dz = draw(st.sampled_from([-1, 1])); i = draw(st.integers(0, len(scan)))
            layers.append(('cap', (n, z), (n, z+dz), i)); scan = scan[:i] + [(n, z), (n, z+dz)] + scan[i:]
        elif kind == 'swap':
            i = draw(st.integers(0, len(scan)-2)); layers.append(('swap', scan[i], scan[i+1], i)); scan = scan[:i] + [scan[i+1], scan[i]] + scan[i+2:]
        else:
            nd = draw(st.integers(0, min(2, len(scan)))); i = draw(st.integers(0, len(scan)-nd))
            cod = [(draw(st.sampled_from(NAMES)), draw(st.integers(-1, 1))) for _ in range(draw(st.integers(0, 2)))]
            layers.append(('box', 'f%d' % draw(st.integers(0, 1)), tuple(scan[i:i+nd]), tuple(cod), i, draw(st.booleans()))); scan = scan[:i] + cod + scan[i+nd:]
    mids = {}
    for l in layers:
        if l[0] == 'box':
            k = (l[1], l[2], l[3]) if not l[5] else (l[1], l[3], l[2])
            if k not in mids: mids[k] = [(draw(st.sampled_from(['p', 'q'])), draw(st.integers(-1, 1))) for _ in range(draw(st.integers(0, 2)))]
    return obmap, dom, layers, scan, mids, draw(st.integers(0, len(layers))), draw(st.booleans())
def mk(l):
    if l[0] == 'cup': return R.Cup(ty([l[1]]), ty([l[2]])), l[3]
    if l[0] == 'cap': return R.Cap(ty([l[1]]), ty([l[2]])), l[3]
    if l[0] == 'swap': return R.Swap(ty([l[1]]), ty([l[2]])), l[3]
    if l[5]: return R.Box(l[1], ty(l[3]), ty(l[2])).dagger(), l[4]
    return R.Box(l[1], ty(l[2]), ty(l[3])), l[4]
stats = collections.Counter(); buckets = collections.defaultdict(list)
@settings(max_examples=2500, deadline=None, suppress_health_check=list(HealthCheck), database=None)
@given(case())
def test(c):
    obmap, dom, layers, cod, mids, cut, callable_ = c
    stats['cases'] += 1
    try:
        bo = [mk(l) for l in layers]
        d = R.Diagram(ty(dom), ty(cod), [b for b, _ in bo], [o for _, o in bo])
        ob = {R.Ty(n): ty(img) for n, img in obmap.items()}
        ar = {}
        for (name, bd, bc), mid in mids.items():
            A = R.Box(name + 'A', ty(FT(obmap, bd)), ty(mid)); B = R.Box(name + 'B', ty(mid), ty(FT(obmap, bc)))
            ar[R.Box(name, ty(bd), ty(bc))] = A >> B
        if callable_:
            ob_d, ar_d = ob, ar; F = R.Functor(lambda t: ob_d[t], lambda b: ar_d[b])
        else: F = R.Functor(ob, ar)
        Fd = F(d); well_typed(Fd)
        assert key(Fd.dom) == FT(obmap, dom), ('dom', key(Fd.dom), FT(obmap, dom))
        assert key(Fd.cod) == FT(obmap, cod), ('cod',)
        assert key(F(d.dom)) == FT(obmap, dom), 'F(ty)'
        a, b = d[:cut], d[cut:]
        assert F(a) >> F(b) == Fd, 'then'
        assert F(d[::-1]) == Fd[::-1], 'dagger'
        assert F(d @ a) == Fd @ F(a), 'tensor'
        assert F(R.Id(d.dom)) == R.Id(F(d.dom)), 'id'
        assert F(d + d) == Fd + Fd, 'sum'
        for t in (d.dom, d.cod):
            assert F(t.l) == F(t).l and F(t.r) == F(t).r, 'adjoint'
        stats['ok'] += 1
        if any(len(v) != 1 for v in obmap.values()) and len(layers) >= 2: stats['nontrivial'] += 1
    except AssertionError as e:
        buckets['assert %s' % str(e)[:30]].append(str(d) + ' ob=%s' % obmap)
    except Exception as e:
        tb = traceback.extract_tb(e.__traceback__)
        fr = ([f for f in tb if '/discopy/' in f.filename] or tb)[-1]
        buckets['%s %s @%s:%d' % (type(e).__name__, str(e)[:60], os.path.basename(fr.filename), fr.lineno)].append(str(layers) + ' ob=%s' % obmap)
test()
print(stats)
for k, v in sorted(buckets.items(), key=lambda kv: -len(kv[1])):
    print(len(v), k); print('      ', min(v, key=len)[:600])
