import warnings; warnings.filterwarnings("ignore")
import itertools
from discopy import monoidal as M, rigid as R, tensor as T
from discopy.quantum import circuit as C, zx
bad = 0; n_checked = 0
for n in range(0, 6):
    for perm in itertools.permutations(range(n)):
        perm = list(perm)
        dom = M.Ty(*['w%d' % i for i in range(n)])
        d = M.Diagram.permutation(perm, dom)
        ok = all(d.cod[perm[i]] == dom[i] for i in range(n)) and all(isinstance(b, M.Swap) for b in d.boxes)
        d2 = R.Diagram.permutation(perm, R.Ty(*['w%d' % i for i in range(n)]))
        ok2 = all(d2.cod[perm[i]] == d2.dom[i] for i in range(n))
        # position tracking for PRO / circuits
        for cls, dd in [('zx', zx.Diagram.permutation(perm)), ('circ', C.Circuit.permutation(perm))]:
            pos = list(range(n))  # pos[k] = which input is at position k
            for b, off in zip(dd.boxes, dd.offsets):
                pos[off], pos[off+1] = pos[off+1], pos[off]
            ok3 = all(pos[perm[i]] == i for i in range(n))
            if not ok3: bad += 1; print('BAD', cls, perm)
        n_checked += 1
        if not (ok and ok2): bad += 1; print('BAD', perm, d.cod)
print(n_checked, bad)
for l in range(4):
    for r in range(4):
        L = M.Ty(*['l%d' % i for i in range(l)]); Rr = M.Ty(*['r%d' % i for i in range(r)])
        s = M.Diagram.swap(L, Rr)
        assert s.dom == L @ Rr and s.cod == Rr @ L, (l, r, s.cod)
print('swap ok')
try:
    print(M.Diagram.permutation([0, 0, 1]))
except Exception as e: print('refused', type(e).__name__)
try:
    print(M.Diagram.permutation([1, 0], M.Ty('a')))
except Exception as e: print('refused', type(e).__name__)
