import sys; import os; sys.path.insert(0, os.path.dirname(os.path.abspath(__file__)))
import warnings; warnings.filterwarnings("ignore")
import collections, traceback, os
from hypothesis import given, settings, HealthCheck, strategies as st
from discopy import cartesian as K
from discopy.cartesian import tuplify
def mkfun(name, nd, nc):
    def f(*xs):
        assert len(xs) == nd, (name, xs)
        outs = tuple('%s.%d(%s)' % (name, j, ','.join(xs)) for j in range(nc))
        return outs[0] if nc == 1 else outs
    return f
@st.composite
def cdiag(draw):
    n = draw(st.integers(0, 3)); w = n; layers = []
    for k in range(draw(st.integers(0, 6))):
        kind = draw(st.sampled_from(['box', 'box', 'swap', 'copy', 'discard']))
        if kind == 'box':
            nd = draw(st.integers(0, min(3, w))); nc = draw(st.integers(0, 3 if w <= 5 else 0)); off = draw(st.integers(0, w - nd))
            layers.append(('box', 'f%d' % k, nd, nc, off)); w += nc - nd
        elif kind == 'swap':
            l = draw(st.integers(0, min(2, w))); r = draw(st.integers(0, min(2, w - l))); off = draw(st.integers(0, w - l - r))
            layers.append(('swap', l, r, off))
        elif kind == 'copy':
            m = draw(st.integers(0, min(2, w))) if w <= 4 else 0; off = draw(st.integers(0, w - m))
            layers.append(('copy', m, off)); w += m
        else:
            m = draw(st.integers(0, min(2, w))); off = draw(st.integers(0, w - m))
            layers.append(('discard', m, off)); w -= m
    return n, layers
def build(spec):
    n, layers = spec
    d = K.Id(n)
    for l in layers:
        if l[0] == 'box': b, off = K.Box(l[1], l[2], l[3], mkfun(l[1], l[2], l[3])), l[4]
        elif l[0] == 'swap': b, off = K.Swap(l[1], l[2]), l[3]
        elif l[0] == 'copy': b, off = K.Copy(l[1]), l[2]
        else: b, off = K.Discard(l[1]), l[2]
        w = len(d.cod)
        d = d >> K.Id(off) @ b @ K.Id(w - off - len(b.dom))
    return d
def ref(spec, xs):
    n, layers = spec; v = list(xs)
    for l in layers:
        if l[0] == 'box':
            _, name, nd, nc, off = l; v = v[:off] + ['%s.%d(%s)' % (name, j, ','.join(v[off:off+nd])) for j in range(nc)] + v[off+nd:]
        elif l[0] == 'swap':
            _, a, b, off = l; v = v[:off] + v[off+a:off+a+b] + v[off:off+a] + v[off+a+b:]
        elif l[0] == 'copy':
            _, m, off = l; v = v[:off] + v[off:off+m] + v[off:off+m] + v[off+m:]
        else:
            _, m, off = l; v = v[:off] + v[off+m:]
    return tuple(v)
stats = collections.Counter(); buckets = collections.defaultdict(list)
@settings(max_examples=2500, deadline=None, suppress_health_check=list(HealthCheck), database=None)
@given(cdiag())
def test(spec):
    stats['cases'] += 1
    try:
        d = build(spec)
        xs = ['x%d' % i for i in range(spec[0])]
        got = tuplify(d(*xs)); exp = ref(spec, xs)
        if got != exp: buckets['mismatch'].append('%s got=%s exp=%s' % (spec, got, exp)); return
        stats['ok'] += 1
    except Exception as e:
        tb = traceback.extract_tb(e.__traceback__)
        fr = ([f for f in tb if '/discopy/' in f.filename] or tb)[-1]
        buckets['%s %s @%s:%d' % (type(e).__name__, str(e)[:60], os.path.basename(fr.filename), fr.lineno)].append(str(spec))
test()
print(stats)
for k, v in sorted(buckets.items(), key=lambda kv: -len(kv[1])):
    print(len(v), k); print('      ', min(v, key=len))
