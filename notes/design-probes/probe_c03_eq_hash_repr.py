import sys; import os; sys.path.insert(0, os.path.dirname(os.path.abspath(__file__)))
import warnings; warnings.filterwarnings("ignore")
import collections, traceback, os, json
from hypothesis import given, settings, HealthCheck, strategies as st
from discopy import cat, monoidal as M, rigid as R
names = st.sampled_from(['f', 'g', "it's", 'a"b', 'λ', 0, 1])
obn = st.sampled_from(['x', 'y', "q'", 1])
data = st.one_of(st.none(), st.integers(-2, 2), st.floats(allow_nan=False, allow_infinity=False, width=16), 
                 st.lists(st.integers(0, 3), max_size=2), st.dictionaries(st.text(max_size=1), st.integers(0, 2), max_size=2))
@st.composite
def rspec(draw, mod):
    rigid = mod == 'rigid'
    def obj(): return (draw(obn), draw(st.integers(-2, 2)) if rigid else 0)
    dom = [obj() for _ in range(draw(st.integers(0, 3)))]; scan = list(dom); layers = []
    for k in range(draw(st.integers(0, 4))):
        kinds = ['box', 'box']
        if len(scan) >= 2: kinds.append('swap')
        if rigid and len(scan) <= 3: kinds.append('cap')
        cup_pos = [i for i in range(len(scan)-1) if scan[i][0] == scan[i+1][0] and abs(scan[i][1]-scan[i+1][1]) == 1] if rigid else []
        if cup_pos: kinds.append('cup')
        kind = draw(st.sampled_from(kinds))
        if kind == 'swap':
            i = draw(st.integers(0, len(scan)-2)); layers.append(['swap', scan[i], scan[i+1], i]); scan = scan[:i] + [scan[i+1], scan[i]] + scan[i+2:]
        elif kind == 'cup':
            i = draw(st.sampled_from(cup_pos)); layers.append(['cup', scan[i], scan[i+1], i]); scan = scan[:i] + scan[i+2:]
        elif kind == 'cap':
            o = obj(); dz = draw(st.sampled_from([-1, 1])); i = draw(st.integers(0, len(scan))); o2 = (o[0], o[1]+dz)
            layers.append(['cap', o, o2, i]); scan = scan[:i] + [o, o2] + scan[i:]
        else:
            nd = draw(st.integers(0, min(2, len(scan)))); i = draw(st.integers(0, len(scan)-nd))
            cod = [obj() for _ in range(draw(st.integers(0, 2)))]
            layers.append(['box', draw(names), list(scan[i:i+nd]), cod, i, draw(st.booleans()), draw(data)]); scan = scan[:i] + cod + scan[i+nd:]
    return [mod, dom, layers, scan]
def ty(mod, objs):
    if mod == 'rigid': return R.Ty(*[R.Ob(n, z) for n, z in objs])
    return M.Ty(*[n for n, _ in objs])
def mkbox(mod, l):
    m = R if mod == 'rigid' else M
    if l[0] == 'swap': return m.Swap(ty(mod, [l[1]]), ty(mod, [l[2]])), l[3]
    if l[0] == 'cup': return R.Cup(ty(mod, [l[1]]), ty(mod, [l[2]])), l[3]
    if l[0] == 'cap': return R.Cap(ty(mod, [l[1]]), ty(mod, [l[2]])), l[3]
    _, name, bd, bc, off, dag, dt = l
    b = m.Box(name, ty(mod, bc), ty(mod, bd), data=dt).dagger() if dag else m.Box(name, ty(mod, bd), ty(mod, bc), data=dt)
    return b, off
def build1(spec):
    mod, dom, layers, cod = spec; m = R if mod == 'rigid' else M
    bo = [mkbox(mod, l) for l in layers]
    return m.Diagram(ty(mod, dom), ty(mod, cod), [b for b, _ in bo], [o for _, o in bo])
def build2(spec):
    mod, dom, layers, cod = spec; m = R if mod == 'rigid' else M
    d = m.Id(ty(mod, dom))
    for l in layers:
        b, off = mkbox(mod, l)
        d = d >> m.Id(d.cod[:off]) @ b @ m.Id(d.cod[off+len(b.dom):])
    return d
def skey(spec): return json.dumps(spec, sort_keys=True, default=str)
stats = collections.Counter(); buckets = collections.defaultdict(list)
@st.composite
def pair(draw):
    mod = draw(st.sampled_from(['monoidal', 'rigid']))
    a = draw(rspec(mod))
    if draw(st.booleans()): return a, a
    return a, draw(rspec(mod))
@settings(max_examples=6000, deadline=None, suppress_health_check=list(HealthCheck), database=None)
@given(pair())
def test(p):
    sa, sb = p
    stats['cases'] += 1
    try:
        a, b = build1(sa), build2(sb)
        same = skey(sa) == skey(sb)
        if (a == b) != same or (b == a) != same: buckets['eq mismatch same=%s' % same].append(str((sa, sb))); return
        if same:
            stats['same'] += 1
            if hash(a) != hash(b): buckets['hash'].append(str(sa)); return
            if {a: 1}.get(b) != 1: buckets['dict'].append(str(sa)); return
        ns = vars(R) if sa[0] == 'rigid' else vars(M)
        r = repr(a)
        try: back = eval(r, dict(ns))
        except Exception as e: buckets['repr not evaluable %s' % type(e).__name__].append(r); return
        if back != a or a != back: buckets['repr roundtrip'].append(r); return
        for bx in a.boxes:
            one = type(a)(bx.dom, bx.cod, [bx], [0]) if False else None
        stats['ok'] += 1
    except Exception as e:
        tb = traceback.extract_tb(e.__traceback__)
        fr = ([f for f in tb if '/discopy/' in f.filename] or tb)[-1]
        buckets['%s %s @%s:%d' % (type(e).__name__, str(e)[:60], os.path.basename(fr.filename), fr.lineno)].append(str(sa))
test()
print(stats)
for k, v in sorted(buckets.items(), key=lambda kv: -len(kv[1])):
    print(len(v), k); print('      ', min(v, key=len)[:3000])
