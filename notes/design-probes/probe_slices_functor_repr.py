import warnings; warnings.filterwarnings("ignore")
from discopy import cat, monoidal as M, rigid as R
import traceback
def tryit(label, f):
    try: print(label, '->', f())
    except Exception as e: print(label, 'ERR', type(e).__name__, str(e)[:200])
x,y,z,w = map(cat.Ob, 'xyzw')
f,g,h = cat.Box('f',x,y), cat.Box('g',y,z), cat.Box('h',z,w)
a = f>>g>>h
s = a[2:0:-1]
tryit('cat [2:0:-1]', lambda: (s.dom, s.cod, s.boxes))
tryit('cat [::2]', lambda: a[::2])
tryit('cat [5:7]', lambda: repr(a[5:7]))
tryit('cat [-7:-5]', lambda: repr(a[-7:-5]))
tryit('cat [2:1]', lambda: repr(a[2:1]))
X,Y,Z_ = M.Ty('x'), M.Ty('y'), M.Ty('z')
F,G = M.Box('f',X,Y@Y), M.Box('g',Y,Z_)
d = F >> G @ M.Id(Y) >> M.Id(Z_) @ G
s = d[2:0:-1]
tryit('mon [2:0:-1]', lambda: (s.dom, s.cod, s.boxes, s.offsets))
tryit('mon [1:1]', lambda: repr(d[1:1]))
tryit('mon [3:3]', lambda: repr(d[3:3]))
tryit('mon [2:1]', lambda: repr(d[2:1]))
tryit('mon [-1]', lambda: repr(d[-1]))
tryit('mon [5]', lambda: repr(d[5]))
# functor with empty / long images
ob = {X: M.Ty(), Y: X @ X, Z_: Z_}
ar = {F: M.Box('F', M.Ty(), X@X@X@X), G: M.Box('G', X@X, Z_)}
Fu = M.Functor(ob, ar)
tryit('functor', lambda: Fu(d))
tryit('functor law', lambda: Fu(d) == Fu(d[:1]) >> Fu(d[1:]))
tryit('functor dag', lambda: Fu(d[::-1]) == Fu(d)[::-1])
# rigid functor adjoint
n, s_ = R.Ty('n'), R.Ty('s')
RF = R.Functor({n: n @ s_, s_: R.Ty()}, {})
tryit('rigid F(n.l)', lambda: RF(n.l))
tryit('rigid F(cup)', lambda: RF(R.Cup(n, n.r)))
tryit('rigid F(cup l)', lambda: RF(R.Cup(n.l, n)))
tryit('rigid F(cap)', lambda: RF(R.Cap(n, n.l)))
tryit('rigid F(cup dag)', lambda: RF(R.Cup(n, n.l)))
tryit('rigid F(swap)', lambda: RF(R.Swap(n, s_)))
tryit('rigid F(Cup(s))', lambda: RF(R.Cup(s_, s_.r)))
# Sum via functor
tryit('F(sum)', lambda: Fu(F + F))
tryit('repr bubble', lambda: repr(F.bubble(dom=X@X, cod=Y)))
tryit('bubble eq', lambda: M.Box('a',X,X).bubble() == M.Box('b',X,X).bubble())
tryit('eval repr', lambda: eval(repr(d), vars(M)) == d)
