import warnings; warnings.filterwarnings("ignore")
import numpy as np
import pytket
from pytket.circuit import OpType, Op
print(pytket.__version__)
from discopy.quantum import *
from discopy.quantum.gates import Controlled
c = Ket(0, 0) >> sqrt(2) @ H @ Rx(0.3) >> CX >> Measure() @ Bra(0)
t = c.to_tk()
print(repr(t))
for cmd in t.get_commands():
    print(cmd.op.type, cmd.op.params, cmd.qubits, cmd.bits, )
    try: print(cmd.op.get_unitary().round(3))
    except Exception as e: print('no unitary', e)
print(t.post_selection, t.scalar, t.post_processing)
# statevector
tt = (Ket(0,0) >> H @ Rx(0.3) >> CX >> Controlled(Rz(0.2))).to_tk() if False else None
for g in [H, S, T, X, Y, Z, CX, CZ, Rx(0.3), Rz(0.3), CRz(0.3), Controlled(S), Controlled(T), Controlled(H), Controlled(Z), Controlled(Y), Ry(0.3), CRx(0.3), CU1(0.3), Controlled(Rx(0.3)), S.dagger(), T.dagger()]:
    try:
        n = len(g.dom)
        tk = (Id(n) >> g).to_tk()
        cmds = tk.get_commands()
        print(g, [ (c.op.type.name, c.op.params, [q.index[0] for q in c.qubits]) for c in cmds])
    except Exception as e:
        print(g, 'ERR', type(e).__name__, e)
