import warnings; warnings.filterwarnings("ignore")
import numpy as np
from hypothesis import given, settings, HealthCheck, strategies as st
from discopy.tensor import Dim, Tensor
from discopy import tensor, rigid
dims = st.lists(st.integers(1, 3), min_size=0, max_size=3)
def mat(t):
    return t.array.reshape(int(np.prod(t.dom, dtype=int)) if len(t.dom) else 1, -1)
@st.composite
def tens(draw, dom=None, cod=None):
    dom = draw(dims) if dom is None else dom
    cod = draw(dims) if cod is None else cod
    n = int(np.prod(dom + cod + [1]))
    re = draw(st.lists(st.integers(-3, 3), min_size=n, max_size=n))
    im = draw(st.lists(st.integers(-3, 3), min_size=n, max_size=n))
    return Tensor(Dim(*dom), Dim(*cod), np.array(re) + 1j*np.array(im))
@settings(max_examples=1500, deadline=None, suppress_health_check=list(HealthCheck), database=None)
@given(st.data())
def test(data):
    a = data.draw(tens()); b = data.draw(tens())
    assert np.array_equal(mat(a @ b), np.kron(mat(a), mat(b))), (a, b)
    assert (a @ b).dom == a.dom @ b.dom
    assert np.array_equal(mat(a.dagger()), mat(a).conj().T)
    c = data.draw(tens(dom=[x for x in a.cod]))
    assert np.array_equal(mat(a >> c), mat(a) @ mat(c))
    l = Dim(*data.draw(dims)); r = Dim(*data.draw(dims))
    s = Tensor.swap(l, r)
    nl, nr = int(np.prod(l, dtype=int)) if len(l) else 1, int(np.prod(r, dtype=int)) if len(r) else 1
    P = np.zeros((nl*nr, nl*nr))
    for i in range(nl):
        for j in range(nr):
            P[i*nr+j, j*nl+i] = 1
    assert np.array_equal(mat(s), P), (l, r)
    # snake
    x = Dim(*data.draw(dims))
    cup, cap = Tensor.cups(x, x.r), Tensor.caps(x.r, x)
    sn = Tensor.id(x) @ cap >> cup @ Tensor.id(x)
    assert np.array_equal(mat(sn), np.eye(mat(sn).shape[0])), x
    cup, cap = Tensor.cups(x.l, x), Tensor.caps(x, x.l)
    sn = cap @ Tensor.id(x) >> Tensor.id(x) @ cup
    assert np.array_equal(mat(sn), np.eye(mat(sn).shape[0])), x
test()
print('ok')
