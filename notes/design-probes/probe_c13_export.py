import sys; import os; sys.path.insert(0, os.path.dirname(os.path.abspath(__file__)))
import warnings; warnings.filterwarnings("ignore")
import numpy as np, collections, traceback, os
from hypothesis import given, settings, HealthCheck, strategies as st
from tksim import simulate
from unittest.mock import Mock
from discopy.quantum import *
from discopy.quantum.gates import Controlled, Scalar

def exact_backend():
    store = []
    def process_circuits(circs, n_shots=None, seed=None):
        hs = []
        for c in circs:
            store.append({k: v*(n_shots or 1) for k, v in simulate(c).items() if v > 1e-14}); hs.append(len(store)-1)
        return hs
    def get_result(h):
        r = Mock(); r.get_counts.return_value = store[h]; return r
    m = Mock(); m.process_circuits = process_circuits; m.get_result = get_result
    return m

ONE = [H, S, T, X, Y, Z]
@st.composite
def circ(draw):
    nq = draw(st.integers(0, 3)); scan = ['q'] * nq
    layers = []
    for k in range(draw(st.integers(1, 8))):
        opts = ['ket']
        nqs = [i for i, w in enumerate(scan) if w == 'q']
        if len(scan) >= 5: opts = []
        if nqs: opts += ['g1', 'g1', 'rot', 'measure', 'bra', 'discard']
        pairs = [i for i in range(len(scan)-1) if scan[i] == scan[i+1] == 'q']
        if pairs: opts += ['g2', 'g2', 'swap', 'crz']
        bpairs = [i for i in range(len(scan)-1) if scan[i] == scan[i+1] == 'b']
        if bpairs: opts += ['bswap']
        opts += ['scalar']
        o = draw(st.sampled_from(opts))
        if o == 'ket':
            i = draw(st.integers(0, len(scan))); b = draw(st.integers(0, 1))
            layers.append((Ket(b), i)); scan.insert(i, 'q')
        elif o == 'g1':
            i = draw(st.sampled_from(nqs)); layers.append((draw(st.sampled_from(ONE)), i))
        elif o == 'rot':
            i = draw(st.sampled_from(nqs)); ph = draw(st.sampled_from([0.25, 0.5, 0.3, -0.7, 1.0]))
            layers.append((draw(st.sampled_from([Rx, Rz]))(ph), i))
        elif o == 'g2':
            i = draw(st.sampled_from(pairs)); layers.append((draw(st.sampled_from([CX, CZ, Controlled(Z), Controlled(H)])), i))
        elif o == 'crz':
            i = draw(st.sampled_from(pairs)); layers.append((CRz(draw(st.sampled_from([0.25, 0.3, -0.6]))), i))
        elif o == 'swap':
            i = draw(st.sampled_from(pairs)); layers.append((SWAP, i))
        elif o == 'bswap':
            i = draw(st.sampled_from(bpairs)); layers.append((Swap(bit, bit), i))
        elif o == 'measure':
            i = draw(st.sampled_from(nqs)); layers.append((Measure(), i)); scan[i] = 'b'
        elif o == 'bra':
            i = draw(st.sampled_from(nqs)); layers.append((Bra(draw(st.integers(0, 1))), i)); scan.pop(i)
        elif o == 'discard':
            i = draw(st.sampled_from(nqs)); layers.append((Discard(), i)); scan.pop(i)
        elif o == 'scalar':
            layers.append((scalar(draw(st.sampled_from([2, 0.5, 1j, 1+1j]))), draw(st.integers(0, len(scan)))))
    return nq, layers
def build(spec):
    nq, layers = spec
    c = Id(nq)
    for box, off in layers:
        c = c >> Id(c.cod[:off]) @ box @ Id(c.cod[off + len(box.dom):])
    return c
stats = collections.Counter(); buckets = collections.defaultdict(list)
@settings(max_examples=1500, deadline=None, suppress_health_check=list(HealthCheck), database=None)
@given(circ())
def test(spec):
    c = build(spec)
    stats['cases'] += 1
    try:
        loc = c.init_and_discard().eval(mixed=True)
    except Exception as e:
        buckets['LOCAL %s %s' % (type(e).__name__, str(e)[:60])].append(str(c)); return
    try:
        be = c.eval(exact_backend())
        a, b = np.array(loc.array, dtype=complex).flatten(), np.array(be.array, dtype=complex).flatten()
        if a.shape != b.shape: buckets['shape mismatch'].append(str(c)); return
        if not np.allclose(a, b, atol=1e-9): buckets['distribution mismatch'].append(str(c)); return
        stats['agree'] += 1
        if any(isinstance(x, (Ket, Bra)) for x, _ in spec[1][1:]): stats['midprep'] += 1
    except NotImplementedError:
        stats['NIE'] += 1
    except Exception as e:
        tb = traceback.extract_tb(e.__traceback__)
        fr = ([f for f in tb if '/discopy/' in f.filename] or tb)[-1]
        buckets['%s %s @%s:%d' % (type(e).__name__, str(e)[:50], os.path.basename(fr.filename), fr.lineno)].append(str(c))
test()
print(stats)
for k, v in sorted(buckets.items(), key=lambda kv: -len(kv[1])):
    print(len(v), k); print('      ', min(v, key=len))
