import warnings; warnings.filterwarnings("ignore")
import numpy as np, itertools

def apply_unitary(rho, U, qs, n):
    # rho: 2^n x 2^n ; qubit 0 most significant
    k = len(qs)
    T = rho.reshape((2,)*(2*n))
    Ut = U.reshape((2,)*(2*k))  # [out..., in...]
    # left multiply
    T = np.tensordot(Ut, T, (list(range(k, 2*k)), qs))
    T = np.moveaxis(T, list(range(k)), qs)
    # right multiply by U^dagger: rho[.., j] * conj(U)[j', j]
    cols = [n + q for q in qs]
    T = np.tensordot(T, Ut.conj(), (cols, list(range(k, 2*k))))
    T = np.moveaxis(T, list(range(2*n-k, 2*n)), cols)
    return T.reshape(2**n, 2**n)

def project(rho, q, o, n):
    T = rho.reshape((2,)*(2*n)).copy()
    idx = [slice(None)]*(2*n)
    idx[q] = 1-o; T[tuple(idx)] = 0
    idx = [slice(None)]*(2*n)
    idx[n+q] = 1-o; T[tuple(idx)] = 0
    return T.reshape(2**n, 2**n)

def simulate(tk_circ):
    n = tk_circ.n_qubits; nb = len(tk_circ.bits)
    rho0 = np.zeros((2**n, 2**n), dtype=complex); rho0[0,0] = 1
    state = {(0,)*nb: rho0}
    for cmd in tk_circ.get_commands():
        name = cmd.op.type.name
        qs = [q.index[0] for q in cmd.qubits]
        if name == 'Measure':
            b = cmd.bits[0].index[0]; q = qs[0]
            new = {}
            for bits, rho in state.items():
                for o in (0,1):
                    r = project(rho, q, o, n)
                    if abs(np.trace(r)) < 1e-15 and not np.any(r): continue
                    nbits = bits[:b] + (o,) + bits[b+1:]
                    new[nbits] = new.get(nbits, 0) + r
            state = new
        else:
            U = cmd.op.get_unitary()
            state = {bits: apply_unitary(rho, U, qs, n) for bits, rho in state.items()}
    return {bits: float(np.trace(rho).real) for bits, rho in state.items()}
