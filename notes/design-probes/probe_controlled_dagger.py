import numpy as np
from discopy.quantum import *
from discopy.quantum.gates import Controlled
c = Controlled(S)
print(c.eval().array.reshape(4,4))
d = c.dagger()
print(d, d.is_dagger)
print(d.eval().array.reshape(4,4))
print(np.allclose(d.eval().array.reshape(4,4), c.eval().array.reshape(4,4).conj().T))
# CX dagger
print(np.allclose(CX.dagger().eval().array, CX.eval().dagger().array))
for g in [Controlled(T), Controlled(Y), Controlled(Rz(0.3)), Controlled(Rx(0.3))]:
    try:
        print(g, np.allclose(g.dagger().eval().array.reshape(4,4), g.eval().array.reshape(4,4).conj().T))
    except Exception as e:
        print(g, 'ERR', repr(e))
