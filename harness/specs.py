"""Specs (plain JSON-able data) for types/boxes/diagrams, builders, and the
reference models O1 (re-scan type checker), O2 (wiring graph), O3 (model
interchange) and O4 (exact reference evaluator).

Type spec      : list of [name, z]                     (z == 0 outside rigid)
Box spec       : {"k": "box", "name", "dom", "cod", "dag", "data"}
                 {"k": "swap"|"cup"|"cap", "l": [name, z], "r": [name, z]}
                 {"k": "spider", "n": [in, out], "t": [name, z]}
Diagram spec   : {"cls", "dom", "layers": [[boxspec, offset], ...]}
"""
import numpy as np

from harness.core import Violation, HarnessError, require


# ------------------------------------------------------------------ spec side

KINDS = {}  # kind -> dict(dom=fn, cod=fn, dagger=fn)  (extension point)


def register_kind(kind, dom, cod, dagger=None):
    KINDS[kind] = dict(dom=dom, cod=cod, dagger=dagger)


def bdom(b):
    k = b["k"]
    if k == "box":
        return [_o(x) for x in b["dom"]]
    if k in ("swap", "cup"):
        return [_o(b["l"]), _o(b["r"])]
    if k == "cap":
        return []
    if k == "spider":
        return [_o(b["t"])] * b["n"][0]
    if k in KINDS:
        return [_o(x) for x in KINDS[k]["dom"](b)]
    raise HarnessError("unknown box kind " + k)


def bcod(b):
    k = b["k"]
    if k == "box":
        return [_o(x) for x in b["cod"]]
    if k == "swap":
        return [_o(b["r"]), _o(b["l"])]
    if k == "cup":
        return []
    if k == "cap":
        return [_o(b["l"]), _o(b["r"])]
    if k == "spider":
        return [_o(b["t"])] * b["n"][1]
    if k in KINDS:
        return [_o(x) for x in KINDS[k]["cod"](b)]
    raise HarnessError("unknown box kind " + k)


def _o(x):
    return list(x) if isinstance(x, (list, tuple)) else x


def bdagger(b):
    """ Spec of the dagger of a box spec. """
    k = b["k"]
    if k == "box":
        return dict(b, dom=b["cod"], cod=b["dom"], dag=not b.get("dag", False))
    if k == "swap":
        return dict(b, l=b["r"], r=b["l"])
    if k == "cup":
        return dict(b, k="cap")
    if k == "cap":
        return dict(b, k="cup")
    if k == "spider":
        return dict(b, n=[b["n"][1], b["n"][0]])
    if k in KINDS and KINDS[k]["dagger"] is not None:
        return KINDS[k]["dagger"](b)
    raise HarnessError(k)


def scans(spec):
    """ List of wire lists before each layer, plus the final one. """
    scan, out = [_o(x) for x in spec["dom"]], []
    for b, off in spec["layers"]:
        out.append(scan)
        d = bdom(b)
        if scan[off:off + len(d)] != d or off < 0:
            raise HarnessError("ill-typed spec at {} {}".format(b, off))
        scan = scan[:off] + bcod(b) + scan[off + len(d):]
    out.append(scan)
    return out


def spec_cod(spec):
    return scans(spec)[-1]


def spec_dagger(spec):
    sc = scans(spec)
    return dict(spec, dom=sc[-1], layers=[
        [bdagger(b), off] for b, off in reversed(spec["layers"])])


def spec_then(a, b):
    return dict(a, layers=list(a["layers"]) + list(b["layers"]))


def spec_tensor(a, b):
    n = len(spec_cod(a))
    return dict(a, dom=list(a["dom"]) + list(b["dom"]),
                layers=[[x, off] for x, off in a["layers"]]
                + [[x, off + n] for x, off in b["layers"]])


def spec_id(cls, t):
    return dict(cls=cls, dom=[_o(x) for x in t], layers=[])


def arities(spec):
    """ [(len dom, len cod, off)] per layer. """
    return [(len(bdom(b)), len(bcod(b)), off) for b, off in spec["layers"]]


# ------------------------------------------------------------------ builders

CLASSES = {}  # cls -> dict(mod=callable, ty=callable, box=callable)


def register_class(cls, mod, ty, box, idf=None, diagram=None):
    CLASSES[cls] = dict(mod=mod, ty=ty, box=box, idf=idf, diagram=diagram)


def mod(cls):
    if cls in CLASSES:
        return CLASSES[cls]["mod"]()
    from discopy import monoidal, rigid
    return {"monoidal": monoidal, "rigid": rigid}[cls]


def ty(cls, t):
    if cls in CLASSES:
        return CLASSES[cls]["ty"](t)
    if cls == "monoidal":
        from discopy import monoidal
        return monoidal.Ty(*[n for n, _ in t])
    if cls == "rigid":
        from discopy import rigid
        return rigid.Ty(*[rigid.Ob(n, z) for n, z in t])
    raise HarnessError(cls)


def ident(cls, t):
    if cls in CLASSES and CLASSES[cls]["idf"]:
        return CLASSES[cls]["idf"](t)
    return mod(cls).Id(ty(cls, t))


def data_of(b):
    return b.get("data")


def box(cls, b):
    if cls in CLASSES:
        return CLASSES[cls]["box"](b)
    m = mod(cls)
    k = b["k"]
    if k == "box" and b.get("word"):
        return word_box(cls, b)
    if k == "box":
        kw = {} if data_of(b) is None else {"data": data_of(b)}
        if b.get("dag"):
            return m.Box(b["name"], ty(cls, b["cod"]), ty(cls, b["dom"]),
                         **kw).dagger()
        return m.Box(b["name"], ty(cls, b["dom"]), ty(cls, b["cod"]), **kw)
    if k == "swap":
        return m.Swap(ty(cls, [b["l"]]), ty(cls, [b["r"]]))
    if k == "cup":
        return m.Cup(ty(cls, [b["l"]]), ty(cls, [b["r"]]))
    if k == "cap":
        return m.Cap(ty(cls, [b["l"]]), ty(cls, [b["r"]]))
    raise HarnessError(k)


def word_box(cls, b):
    """ A grammar Word (signature Word(name, cod, dom=None, data=None)): a box
    subclass whose constructor takes its arguments in another order. """
    if cls == "rigid":
        from discopy.grammar.pregroup import Word
    elif cls == "biclosed":
        from discopy.grammar.ccg import Word
    else:
        from discopy.grammar.cfg import Word
    kw = {} if data_of(b) is None else {"data": data_of(b)}
    dom, cod = (b["cod"], b["dom"]) if b.get("dag") else (b["dom"], b["cod"])
    word = Word(str(b["name"]), ty(cls, cod), dom=ty(cls, dom), **kw)
    return word.dagger() if b.get("dag") else word


def build(spec, route="ctor"):
    """ Build the library diagram of a spec through the public API.

    route "ctor": Diagram(dom, cod, boxes, offsets)  (the scanning constructor)
    route "whisker": Id(dom) >> Id(l) @ box @ Id(r) >> ...
    route "slice": build a longer diagram and slice the wanted part out
    """
    cls = spec["cls"]
    sc = scans(spec)
    boxes = [box(cls, b) for b, _ in spec["layers"]]
    offsets = [off for _, off in spec["layers"]]
    if cls == "cat":
        from discopy import cat
        if route == "ctor":
            return cat.Arrow(ty(cls, sc[0]), ty(cls, sc[-1]), boxes)
        result = cat.Id(ty(cls, sc[0]))
        for bx in boxes:
            result = result >> bx
        return result
    if route == "ctor":
        if cls in CLASSES and CLASSES[cls]["diagram"]:
            return CLASSES[cls]["diagram"](sc[0], sc[-1], boxes, offsets)
        return mod(cls).Diagram(
            ty(cls, sc[0]), ty(cls, sc[-1]), boxes, offsets)
    if route in ("whisker", "slice"):
        result = ident(cls, sc[0])
        for (b, off), bx, scan in zip(spec["layers"], boxes, sc):
            n = len(bdom(b))
            result = result >> ident(cls, scan[:off]) @ bx\
                @ ident(cls, scan[off + n:])
        if route == "slice" and boxes:
            padded = result >> result[::-1] >> result
            n = len(boxes)
            result = padded[2 * n:]
        return result
    raise HarnessError(route)


# --------------------------------------------------------- O1 type checker

def tkey(t):
    """ Key of a library type: tuple of (name, z), by reading `.objects`. """
    if t is None:
        return (("<None>", 0),)
    if not hasattr(t, "objects"):
        return ((t.name, 0),)
    return tuple((_okey(o)) for o in t.objects)


def _okey(o):
    name = o.name
    if hasattr(o, "left") and hasattr(o, "right") and hasattr(o, "objects"):
        # biclosed Over / Under
        return (type(o).__name__, tkey(o.left), tkey(o.right))
    return (name, getattr(o, "z", 0))


def skey_ty(t):
    return tuple(skey_ob(x) for x in t)


def skey_ob(x):
    if isinstance(x, dict):  # biclosed: {"o": [left, right]} / {"u": [...]}
        (tag, (left, right)), = x.items()
        return ({"o": "Over", "u": "Under"}[tag],
                skey_ty(left), skey_ty(right))
    return (x[0], x[1])


def same_box(a, b):
    if a is b:
        return True
    try:
        return type(a) is type(b) and tkey(a.dom) == tkey(b.dom)\
            and tkey(a.cod) == tkey(b.cod) and repr(a) == repr(b)
    except Exception:  # noqa
        return False


def well_typed(d, what="value", depth=0):
    """ O1: raises Violation unless d is a well-typed diagram. """
    from discopy import cat, monoidal
    if depth > 6:
        return
    require(isinstance(d, cat.Arrow), "O1:not-an-arrow",
            lambda: "{}: {!r}".format(what, type(d)))
    if isinstance(d, cat.Sum):
        for term in d.terms:
            require(_k(term.dom) == _k(d.dom) and _k(term.cod) == _k(d.cod),
                    "O1:sum-term-type", lambda: "{}: {}".format(what, d))
            well_typed(term, what + ".term", depth + 1)
        return
    if isinstance(d, cat.Bubble):
        well_typed(d.inside, what + ".inside", depth + 1)
    if not isinstance(d, monoidal.Diagram):
        scan = d.dom
        for i, bx in enumerate(d.boxes):
            require(bx.dom == scan and _k(bx.dom) == _k(scan), "O1:chain",
                    lambda: "{}: box {} of {}".format(what, i, d))
            scan = bx.cod
            if bx is not d and len(bx.boxes) != 1:
                well_typed(bx, what + ".box", depth + 1)
        require(_k(scan) == _k(d.cod), "O1:chain-cod",
                lambda: "{}: {} ends in {} not {}".format(
                    what, d, scan, d.cod))
        return
    boxes, offsets, layers = d.boxes, d.offsets, d.layers
    require(len(boxes) == len(offsets) == len(layers), "O1:lengths",
            lambda: "{}: {} boxes {} offsets {} layers".format(
                what, len(boxes), len(offsets), len(layers)))
    scan = tkey(d.dom)
    require(tkey(layers.dom) == scan, "O1:layers-dom",
            lambda: "{}: layers.dom {} dom {}".format(what, layers.dom, d.dom))
    require(tkey(layers.cod) == tkey(d.cod), "O1:layers-cod",
            lambda: "{}: layers.cod {} cod {}".format(what, layers.cod, d.cod))
    for i, (bx, off, layer) in enumerate(zip(boxes, offsets, layers.boxes)):
        require(isinstance(off, int) and not isinstance(off, bool)
                and off >= 0, "O1:offset",
                lambda: "{}: offset {!r} at {}".format(what, off, i))
        bd, bc = tkey(bx.dom), tkey(bx.cod)
        require(scan[off:off + len(bd)] == bd, "O1:box-domain",
                lambda: "{}: box {} ({}) at offset {} does not find its "
                "domain in {} :: {}".format(what, i, bx, off, scan, d))
        left, mid, right = layer
        require(tkey(left) == scan[:off] and same_box(mid, bx)
                and tkey(right) == scan[off + len(bd):], "O1:layer",
                lambda: "{}: layer {} = {!r} vs scan {} off {} :: {}".format(
                    what, i, layer, scan, off, d))
        require(tkey(layer.dom) == scan, "O1:layer-dom",
                lambda: "{}: layer {} dom".format(what, i))
        scan = scan[:off] + bc + scan[off + len(bd):]
        require(tkey(layer.cod) == scan, "O1:layer-cod",
                lambda: "{}: layer {} cod".format(what, i))
        if bx is not d:
            if isinstance(bx, (cat.Sum, cat.Bubble)) or len(bx.boxes) != 1\
                    or bx.boxes[0] is not bx:
                well_typed(bx, what + ".box", depth + 1)
    require(scan == tkey(d.cod), "O1:codomain",
            lambda: "{}: scan ends in {} but cod is {} :: {}".format(
                what, scan, tkey(d.cod), d))


def _k(t):
    return tkey(t)


def check_against_spec(d, spec, what="built"):
    """ The library value has exactly the dom/cod/offsets/arity of the spec."""
    sc = scans(spec)
    require(tkey(d.dom) == skey_ty(sc[0]), "spec:dom", what)
    require(tkey(d.cod) == skey_ty(sc[-1]), "spec:cod", what)
    require(list(d.offsets) == [off for _, off in spec["layers"]],
            "spec:offsets", what)
    for bx, (b, _) in zip(d.boxes, spec["layers"]):
        require(tkey(bx.dom) == skey_ty(bdom(b))
                and tkey(bx.cod) == skey_ty(bcod(b)), "spec:box", what)


# --------------------------------------------------------- O2 wiring graph

def wiring(ndom, ars):
    """ ars: [(len dom, len cod, off)]. Returns (set of wires, ncod) where a
    wire is (source port, target port): ports ('in', i), (k, 'c', p),
    (k, 'd', p), ('out', j). """
    scan = [("in", i) for i in range(ndom)]
    wires = set()
    for k, (nd, nc, off) in enumerate(ars):
        if off < 0 or off + nd > len(scan):
            raise HarnessError("wiring of ill-typed arities")
        for p in range(nd):
            wires.add((scan[off + p], (k, "d", p)))
        scan = scan[:off] + [(k, "c", p) for p in range(nc)] + scan[off + nd:]
    for j, src in enumerate(scan):
        wires.add((src, ("out", j)))
    return wires, len(scan)


def wiring_of(d):
    return wiring(len(d.dom), [
        (len(bx.dom), len(bx.cod), off)
        for bx, off in zip(d.boxes, d.offsets)])


def relabel(wires, perm):
    """ Rename box index k to perm[k] in a wire set. """
    def port(p):
        return p if p[0] in ("in", "out") else (perm[p[0]],) + tuple(p[1:])
    return {(port(a), port(b)) for a, b in wires}


def connected(ndom, ars):
    """ Is the box graph connected (boxes joined by wires)? <=1 box: True. """
    n = len(ars)
    if n <= 1:
        return True
    wires, _ = wiring(ndom, ars)
    adj = {k: set() for k in range(n)}
    for a, b in wires:
        if a[0] not in ("in", "out") and b[0] not in ("in", "out"):
            adj[a[0]].add(b[0])
            adj[b[0]].add(a[0])
    seen, todo = {0}, [0]
    while todo:
        for y in adj[todo.pop()]:
            if y not in seen:
                seen.add(y)
                todo.append(y)
    return len(seen) == n


# --------------------------------------------------------- O3 model interchange

def model_swap(a, b):
    """ a = (nd, nc, off) upper, b lower. Returns the list of legal
    (new_upper, new_lower) pairs after exchanging them (empty if wired). """
    (nda, nca, offa), (ndb, ncb, offb) = a, b
    out = []
    if offb >= offa + nca:  # b strictly right of a's outputs
        out.append(((ndb, ncb, offb - nca + nda), (nda, nca, offa)))
    if offa >= offb + ndb:  # a right of b's inputs
        out.append(((ndb, ncb, offb), (nda, nca, offa - ndb + ncb)))
    return out


def model_class(ndom, ars, cap=3000):
    """ BFS of the interchanger-equivalence class of (ids, arities).
    States are tuples of (box id, nd, nc, off). Returns (set, capped). """
    start = tuple((i,) + tuple(a) for i, a in enumerate(ars))
    seen, todo = {start}, [start]
    while todo:
        state = todo.pop()
        for i in range(len(state) - 1):
            a, b = state[i], state[i + 1]
            for nb, na in model_swap(a[1:], b[1:]):
                new = state[:i] + ((b[0],) + nb, (a[0],) + na) + state[i + 2:]
                if new not in seen:
                    if len(seen) >= cap:
                        return seen, True
                    seen.add(new)
                    todo.append(new)
    return seen, False


# --------------------------------------------------------- O4 reference eval

def cplx(vals, shape):
    size = int(np.prod(shape)) if len(shape) else 1
    if len(vals) != 2 * size:
        raise HarnessError("array of wrong size")
    kind = np.int64 if all(isinstance(v, int) for v in vals) else float
    out = np.array(vals[:size], dtype=kind)\
        + 1j * np.array(vals[size:], dtype=kind)
    return out.reshape(tuple(shape))


def apply_tensor(T, n_fixed, off, B, nd):
    """ Contract the open axes [n_fixed+off, n_fixed+off+nd) of T with the
    first nd axes of B and put B's remaining axes in their place. """
    nc = B.ndim - nd
    src = list(range(n_fixed + off, n_fixed + off + nd))
    T = np.tensordot(T, B, (src, list(range(nd))))
    return np.moveaxis(T, list(range(T.ndim - nc, T.ndim)),
                       list(range(n_fixed + off, n_fixed + off + nc)))


def delta(n_legs, dim):
    out = np.zeros((dim,) * n_legs, dtype=np.int64) if n_legs\
        else np.array(dim, dtype=np.int64)
    if n_legs:
        for i in range(dim):
            out[(i,) * n_legs] = 1
    return out


def swap_tensor(dl, dr):
    out = np.zeros((dl, dr, dr, dl), dtype=np.int64)
    for x in range(dl):
        for y in range(dr):
            out[x, y, y, x] = 1
    return out


def ref_eval(spec, dims, arrays, box_tensor=None):
    """ O4. dims: name -> int; arrays: (name, dom key, cod key) -> ndarray of
    shape dims(dom) + dims(cod) for the *undaggered* generator.
    Returns the ndarray with axes dims(dom) + dims(cod) of the diagram. """
    def dim(t):
        return [dims[n] for n, _ in t]

    def default(b):
        k = b["k"]
        if k == "box":
            if b.get("dag"):
                A = arrays[(b["name"], skey_ty(b["cod"]), skey_ty(b["dom"]))]
                n = len(b["cod"])
                return np.conj(np.moveaxis(
                    A, list(range(n)), list(range(A.ndim - n, A.ndim))))
            return arrays[(b["name"], skey_ty(b["dom"]), skey_ty(b["cod"]))]
        if k == "swap":
            return swap_tensor(dims[b["l"][0]], dims[b["r"][0]])
        if k in ("cup", "cap"):
            return np.eye(dims[b["l"][0]], dtype=np.int64)
        if k == "spider":
            return delta(sum(b["n"]), dims[b["t"][0]])
        raise HarnessError(k)

    box_tensor = box_tensor or default
    dom = spec["dom"]
    shape = dim(dom)
    size = int(np.prod(shape)) if shape else 1
    T = np.eye(size, dtype=np.int64).reshape(tuple(shape) * 2)
    n = len(dom)
    for b, off in spec["layers"]:
        B = np.asarray(box_tensor(b))
        T = apply_tensor(T, n, off, B, len(bdom(b)))
    return T


# --------------------------------------------------------- structural keys

def lib_box_key(bx):
    """ Structural key of a library box, read from its attributes. """
    from discopy import cat
    if isinstance(bx, cat.Sum):
        return dkey(bx)
    if isinstance(bx, cat.Bubble):
        return ("bubble", tkey(bx.dom), tkey(bx.cod), dkey(bx.inside))
    if not isinstance(bx, cat.Box):
        return dkey(bx)
    for kind in ("Cup", "Cap", "Swap"):
        if type(bx).__name__ == kind and hasattr(bx, "left"):
            return (kind.lower(), tkey(bx.left), tkey(bx.right))
    data = getattr(bx, "_data", None)
    return ("box", type(bx).__name__, _name_key(bx), tkey(bx.dom),
            tkey(bx.cod), bool(getattr(bx, "_dagger", False)),
            _data_key(data))


def _name_key(bx):
    name = bx.name
    return (type(name).__name__, repr(name))


def _data_key(data):
    if data is None:
        return None
    if hasattr(data, "shape") and hasattr(data, "tolist"):
        return repr(data.tolist())
    return repr(data)


def dkey(d):
    """ Structural key of a library value (diagram / arrow / sum). """
    from discopy import cat, monoidal
    if isinstance(d, cat.Sum):
        return ("sum", tkey(d.dom), tkey(d.cod),
                tuple(dkey(t) for t in d.terms))
    boxes = d.boxes
    if isinstance(d, monoidal.Diagram):
        return ("diagram", tkey(d.dom), tkey(d.cod),
                tuple(lib_box_key(b) if b is not d else ("self",)
                      for b in boxes), tuple(d.offsets)) if not (
            len(boxes) == 1 and boxes[0] is d) else (
                "diagram", tkey(d.dom), tkey(d.cod),
                (_leaf_key(d),), (0,))
    if len(boxes) == 1 and boxes[0] is d:
        return ("arrow", tkey(d.dom), tkey(d.cod), (_leaf_key(d),))
    return ("arrow", tkey(d.dom), tkey(d.cod),
            tuple(lib_box_key(b) for b in boxes))


def _leaf_key(bx):
    from discopy import cat
    if isinstance(bx, cat.Bubble):
        return ("bubble", tkey(bx.dom), tkey(bx.cod), dkey(bx.inside))
    for kind in ("Cup", "Cap", "Swap"):
        if type(bx).__name__ == kind and hasattr(bx, "left"):
            return (kind.lower(), tkey(bx.left), tkey(bx.right))
    return ("box", type(bx).__name__, _name_key(bx), tkey(bx.dom),
            tkey(bx.cod), bool(getattr(bx, "_dagger", False)),
            _data_key(getattr(bx, "_data", None)))


def spec_box_key(cls, b):
    """ The lib_box_key a box built from spec b is expected to have
    (name, types, dagger flag; class name and data left out: None). """
    k = b["k"]
    if k in ("swap", "cup", "cap"):
        return (k, skey_ty([b["l"]]), skey_ty([b["r"]]))
    if k == "box":
        return ("box", b["name"], skey_ty(bdom(b)), skey_ty(bcod(b)),
                bool(b.get("dag", False)))
    return (k, skey_ty(bdom(b)), skey_ty(bcod(b)))


def matches_spec(d, spec, what=""):
    """ d (library diagram) is exactly the diagram the spec describes. """
    cls = spec["cls"]
    sc = scans(spec)
    require(tkey(d.dom) == skey_ty(sc[0]), "spec:dom",
            lambda: "{} {} vs {}".format(what, d.dom, sc[0]))
    require(tkey(d.cod) == skey_ty(sc[-1]), "spec:cod",
            lambda: "{} {} vs {}".format(what, d.cod, sc[-1]))
    boxes = d.boxes
    require(len(boxes) == len(spec["layers"]), "spec:length",
            lambda: "{} {}".format(what, d))
    if hasattr(d, "offsets"):
        require(list(d.offsets) == [off for _, off in spec["layers"]],
                "spec:offsets", lambda: "{} {} vs {}".format(
                    what, d.offsets, [off for _, off in spec["layers"]]))
    for i, (bx, (b, _)) in enumerate(zip(boxes, spec["layers"])):
        got = lib_box_key(bx) if bx is not d else _leaf_key(bx)
        exp = spec_box_key(cls, b)
        if exp[0] == "box":
            ok = got[0] == "box" and got[2][1] == repr(exp[1])\
                and got[3:6] == exp[2:5]
        elif exp[0] in ("swap", "cup", "cap"):
            ok = got == exp
        else:
            ok = got[3:5] == exp[1:3] if got[0] == "box" else True
        require(ok, "spec:box", lambda: "{} box {}: {} vs {}".format(
            what, i, got, exp))


def spec_of(d, cls):
    """ Spec read back from a library monoidal/rigid diagram. """
    layers = []
    for bx, off in zip(d.boxes, d.offsets):
        kind = type(bx).__name__
        if kind in ("Cup", "Cap", "Swap") and hasattr(bx, "left"):
            layers.append([{"k": kind.lower(), "l": list(tkey(bx.left)[0]),
                            "r": list(tkey(bx.right)[0])}, off])
        else:
            layers.append([{
                "k": "box", "name": bx.name,
                "dom": [list(x) for x in tkey(bx.dom)],
                "cod": [list(x) for x in tkey(bx.cod)],
                "dag": bool(getattr(bx, "_dagger", False))}, off])
    return {"cls": cls, "dom": [list(x) for x in tkey(d.dom)],
            "layers": layers}
