import warnings; warnings.filterwarnings("ignore")
import pyzx
from pyzx.graph.graph_s import GraphS

class CallableList(list):
    def __call__(self):
        return tuple(self)

def _mk(name):
    key = '_adapter' + name
    def get(self):
        if key not in self.__dict__:
            self.__dict__[key] = CallableList()
        return self.__dict__[key]
    def set_(self, v):
        self.__dict__[key] = CallableList(v)
    return get, set_

gi, si = _mk('_in'); go, so = _mk('_out')
GraphS.inputs = property(gi, si)
GraphS.outputs = property(go, so)
GraphS._inputs = property(lambda s: tuple(gi(s)), si)
GraphS._outputs = property(lambda s: tuple(go(s)), so)
GraphS.set_inputs = lambda s, v: si(s, v)
GraphS.set_outputs = lambda s, v: so(s, v)
GraphS.num_inputs = lambda s: len(gi(s))
GraphS.num_outputs = lambda s: len(go(s))
def set_phase(self, vertex, phase):
    try: self._phase[vertex] = phase % 2
    except Exception: self._phase[vertex] = phase
def add_to_phase(self, vertex, phase):
    set_phase(self, vertex, self._phase.get(vertex, 0) + phase)
GraphS.set_phase = set_phase
GraphS.add_to_phase = add_to_phase
