"""CLI: python -m harness.run <Cxx> [--tier quick|thorough] [--facet F ...]

Exit 0: property held on everything explored (KNOWN-FINDING lines possible).
Exit 1: at least one `VIOLATION property=<id> replay=<path>` line.
Exit 2: harness error (never a verdict).
"""
import os
import sys
import argparse


def main(argv=None):
    parser = argparse.ArgumentParser()
    parser.add_argument("property")
    parser.add_argument("--tier", default=os.environ.get("VERIF_TIER", "quick"),
                        choices=["quick", "thorough"])
    parser.add_argument("--facet", action="append")
    parser.add_argument("--no-exclusions", action="store_true")
    parser.add_argument("--procs", type=int, default=None)
    parser.add_argument("--budget", type=float, default=None,
                        help="wall-clock guard (s): truncates shards only")
    args = parser.parse_args(argv)
    if os.environ.get("PYTHONHASHSEED") != "0":
        env = dict(os.environ, PYTHONHASHSEED="0", MPLBACKEND="Agg",
                   PYTHONDONTWRITEBYTECODE="1", OMP_NUM_THREADS="1",
                   OPENBLAS_NUM_THREADS="1", MKL_NUM_THREADS="1")
        os.execve(sys.executable, [sys.executable, "-m", "harness.run"]
                  + (argv if argv is not None else sys.argv[1:]), env)
    if args.no_exclusions:
        os.environ["VERIF_NO_EXCLUSIONS"] = "1"
    try:
        seed = int(os.environ.get("VERIF_SEED", "1") or 1)
    except ValueError:
        seed = 1
    from harness import core
    try:
        code = core.run_property(
            args.property.upper(), tier=args.tier, seed=seed, only=args.facet,
            exclusions=not args.no_exclusions, procs=args.procs,
            budget_s=args.budget)
    except Exception:  # noqa
        import traceback
        traceback.print_exc()
        print("HARNESS-ERROR property={}".format(args.property))
        code = 2
    print("{} tier={} seed={} exit={}".format(
        args.property.upper(), args.tier, seed, code))
    sys.stdout.flush()
    return code


if __name__ == "__main__":
    sys.exit(main())
