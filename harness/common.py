"""Helpers shared by the property modules."""
import numpy as np

from harness import specs
from harness.core import Violation, require


def arrays_of(interp):
    """ interp spec -> (dims, {(name, domkey, codkey): ndarray}) """
    dims = dict(interp["dims"])
    arrays = {}
    for g in interp["ar"]:
        shape = [dims[n] for n, _ in g["dom"]] + [dims[n] for n, _ in g["cod"]]
        arrays[(g["name"], specs.skey_ty(g["dom"]), specs.skey_ty(g["cod"]))]\
            = specs.cplx(g["vals"], shape)
    return dims, arrays


def show(d, limit=300):
    try:
        text = str(d)
    except Exception as exc:  # noqa
        text = "<unprintable {}>".format(type(exc).__name__)
    return text if len(text) <= limit else text[:limit] + "..."


def expect_raises(func, allowed, label, detail=""):
    """ `func()` must raise one of `allowed`; returning a value is the
    violation. Other exception types propagate (bucketed by the core). """
    try:
        value = func()
    except allowed:
        return
    raise Violation(label, "{} returned {!r}".format(detail, value)[:500])


def permute_layers(spec, order, offsets):
    """ Spec with layers reordered: new layer p is old layer order[p], with
    the given offsets. """
    return dict(spec, layers=[
        [spec["layers"][k][0], off] for k, off in zip(order, offsets)])


def exact_equal(a, b):
    a, b = np.asarray(a), np.asarray(b)
    return a.shape == b.shape and bool(np.array_equal(a, b))


def as_matrix(tensor, n_dom):
    arr = np.asarray(tensor)
    rows = int(np.prod(arr.shape[:n_dom])) if n_dom else 1
    return arr.reshape(rows, -1)


def substituted(d):
    """ The diagram d (cat, monoidal or rigid) after a round trip through
    symbols: every plain box without data gets the payload [phi, k], then phi
    is substituted by a number. The result has the shape of d and boxes that
    differ from the symbolic ones only in their data; no symbol is left in any
    view of it. Returns (result, symbol). """
    import sympy
    from discopy import cat, monoidal, rigid
    phi = sympy.Symbol("phi")
    plain = (cat.Box, monoidal.Box, rigid.Box)

    def symbolic(k, b):
        if type(b) in plain and b.data is None and not b.is_dagger:
            return type(b)(b.name, b.dom, b.cod, data=[phi, k])
        return b
    boxes = [symbolic(k, b) for k, b in enumerate(d.boxes)]
    if isinstance(d, monoidal.Diagram):
        sym = type(d)(d.dom, d.cod, boxes, d.offsets) if type(d) in (
            monoidal.Diagram, rigid.Diagram) else monoidal.Diagram.upgrade(
                monoidal.Diagram(d.dom, d.cod, boxes, d.offsets))
        if isinstance(d, rigid.Diagram):
            sym = rigid.Diagram(d.dom, d.cod, boxes, d.offsets)
    else:
        sym = cat.Arrow(d.dom, d.cod, boxes)
    return sym.subs(phi, 0.5), phi
