"""Property-based verification harness for DisCoPy (see /verif/DESIGN.md)."""
