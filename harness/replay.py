"""CLI: python -m harness.replay <replay.json>   (no Hypothesis involved)

Rebuilds the saved spec and re-runs the facet's check.  Exit 1 with a
VIOLATION line if it still fails, 0 if it passes.
"""
import os
import sys
import json


def main(argv=None):
    argv = sys.argv[1:] if argv is None else argv
    if os.environ.get("PYTHONHASHSEED") != "0":
        env = dict(os.environ, PYTHONHASHSEED="0", MPLBACKEND="Agg",
                   PYTHONDONTWRITEBYTECODE="1")
        os.execve(sys.executable,
                  [sys.executable, "-m", "harness.replay"] + argv, env)
    from harness import core
    path = argv[0]
    data = json.load(open(path))
    failure = core.replay_case(data["property"], data["facet"], data["spec"])
    if failure is None:
        print("PASS property={} facet={}".format(
            data["property"], data["facet"]))
        return 0
    if failure["kind"] == "harness":
        print("HARNESS-ERROR\n" + failure.get("trace", ""))
        return 2
    print("VIOLATION property={} replay={}".format(data["property"], path))
    print("  facet={} label={} :: {}".format(
        data["facet"], failure["label"], failure["message"][:1000]))
    if "-v" in argv:
        print(failure.get("trace", ""))
    return 1


if __name__ == "__main__":
    sys.exit(main())
