"""O7: exact simulator of tket command lists, and an exact fake backend.

state = {classical register value -> unnormalised density matrix}; gates by
tket's own `op.get_unitary()`; Measure(q, b) projects and overwrites bit b.
Qubit / bit positions follow the sorted unit lists, as a real backend does.
"""
from unittest.mock import Mock

import numpy as np


def apply_unitary(rho, U, qs, n):
    k = len(qs)
    T = rho.reshape((2,) * (2 * n))
    Ut = np.asarray(U).reshape((2,) * (2 * k))  # [out..., in...]
    T = np.tensordot(Ut, T, (list(range(k, 2 * k)), qs))
    T = np.moveaxis(T, list(range(k)), qs)
    cols = [n + q for q in qs]
    T = np.tensordot(T, Ut.conj(), (cols, list(range(k, 2 * k))))
    T = np.moveaxis(T, list(range(2 * n - k, 2 * n)), cols)
    return T.reshape(2 ** n, 2 ** n)


def project(rho, q, o, n):
    T = rho.reshape((2,) * (2 * n)).copy()
    idx = [slice(None)] * (2 * n)
    idx[q] = 1 - o
    T[tuple(idx)] = 0
    idx = [slice(None)] * (2 * n)
    idx[n + q] = 1 - o
    T[tuple(idx)] = 0
    return T.reshape(2 ** n, 2 ** n)


def simulate(tk_circ, return_state=False):
    """ Exact distribution over all bits of a pytket circuit started in
    |0...0> with all bits 0: {bitstring tuple: probability}. """
    qubits, bits = sorted(tk_circ.qubits), sorted(tk_circ.bits)
    n, nb = len(qubits), len(bits)
    rho0 = np.zeros((2 ** n, 2 ** n), dtype=complex)
    rho0[0, 0] = 1
    state = {(0,) * nb: rho0}
    for cmd in tk_circ.get_commands():
        name = cmd.op.type.name
        qs = [qubits.index(q) for q in cmd.qubits]
        if name == "Measure":
            b, q = bits.index(cmd.bits[0]), qs[0]
            new = {}
            for reg, rho in state.items():
                for o in (0, 1):
                    r = project(rho, q, o, n)
                    if not np.any(r):
                        continue
                    key = reg[:b] + (o,) + reg[b + 1:]
                    new[key] = new.get(key, 0) + r
            state = new
        elif name in ("Barrier",):
            continue
        else:
            U = cmd.op.get_unitary()
            state = {reg: apply_unitary(rho, U, qs, n)
                     for reg, rho in state.items()}
    if return_state:
        return state
    return {reg: float(np.trace(rho).real) for reg, rho in state.items()}


def exact_backend(n_calls=None):
    """ A backend whose counts are exact probabilities x n_shots. """
    store = []

    def process_circuits(circuits, n_shots=None, seed=None, **_):
        handles = []
        for circuit in circuits:
            store.append({k: v * (n_shots or 1)
                          for k, v in simulate(circuit).items()
                          if v > 1e-15})
            handles.append(len(store) - 1)
        return handles

    def get_result(handle):
        result = Mock()
        result.get_counts.return_value = dict(store[handle])
        return result
    backend = Mock()
    backend.process_circuits = process_circuits
    backend.get_result = get_result
    return backend
