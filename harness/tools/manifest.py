"""Writes /verif/MANIFEST.json from the table below (and validates it)."""
import os
import json

ROOT = os.path.dirname(os.path.dirname(os.path.dirname(
    os.path.abspath(__file__))))

PY = "/venv/bin/python"

CHECKS = {
    "C01": dict(
        technique="property-based testing: generated operation programs "
        "(histories) + re-scan type-checker oracle; ill-typed requests "
        "decided by key comparison",
        text="Programs of up to 25-40 public operations over pools of "
        "generated diagrams in all eight diagram classes; every returned or "
        "yielded value (including every rewrite step, foliation slice, sum "
        "term and bubble inside) is re-scanned from its domain by an "
        "independent checker that compares (name, z) keys and the per-layer "
        "view; ill-typed requests must raise. Exploration, not proof.",
        note="Trusts the harness re-scan O1; exotic slices only need to raise "
        "or be well-typed; an AxiomError on a request O1 deems well-typed is "
        "reported, other exception types are counted as refusals.",
        ref="5/C01"),
    "C02": dict(
        technique="property-based testing: metamorphic algebraic laws as == "
        "plus structural-key comparison and spec-side expected composites",
        text="Composable and arbitrary triples and formal sums of generated "
        "diagrams in all eight classes; each listed law is asserted with == "
        "in both directions and by structural keys read from attributes, and "
        "composites/tensors/daggers are compared with the harness-side "
        "concatenation of the specs. Exploration, not proof.",
        note="Both sides of a law come from the library; independence comes "
        "from the spec-side expectation and the key comparison. cartesian "
        "defines no dagger (clauses skipped there).", ref="5/C02"),
    "C03": dict(
        technique="property-based testing: pairs of specs built by different "
        "routes / single-field mutants vs a structural model of equality; "
        "repr round-trip through eval; hash and dict-lookup consistency",
        text="Generated cat/monoidal/rigid values are built twice (scanning "
        "constructor, whiskering, slicing a longer diagram) or mutated in one "
        "field; == must agree with structural equality of the specs in both "
        "directions, equal values must hash and look up alike (also as "
        "functor keys), box == wrapping diagram, repr must evaluate back to "
        "an equal value. Exploration, not proof.",
        note="Structural equality of specs uses Python's == on names and "
        "payloads; one known finding (hashes across the numeric tower) is "
        "listed and excluded by matcher.", ref="5/C03"),
    "C04": dict(
        technique="property-based testing: generated functors and diagrams; "
        "the whole image is predicted on the spec side and compared, plus the "
        "functoriality laws as ==",
        text="Generated cat/monoidal/rigid functors (object images of length "
        "0-2 with adjoints, box images = generated diagrams, dict or "
        "callable) applied to generated diagrams with daggers, swaps, "
        "cups/caps, sums, bubbles; F(d) is compared box by box with an image "
        "assembled by the harness (nested cups/caps, shifted offsets, "
        "daggered images), and composite/tensor/identity/dagger/slice/sum "
        "laws are asserted. Exploration, not proof.",
        note="Block-swap images are compared with the library's own "
        "Diagram.swap (decided by C10); F(d†) == F(d)† is strict only where "
        "it is satisfiable (DESIGN.md C04).", ref="5/C04"),
    "C06": dict(
        technique="property-based testing + exhaustive small-scope "
        "enumeration: interchanger-equivalence classes by BFS with an "
        "independent model; step-capped termination",
        text="For generated connected diagrams the whole interchanger-"
        "equivalence class is enumerated with the harness model (cap 3000) "
        "and every (sampled) member must normalise to the same value; every "
        "normalize step must be one legal interchange; results are "
        "idempotent, keep boxes and exact denotation; termination is decided "
        "by a step cap; disconnected inputs may only raise "
        "NotImplementedError. Exploration, not proof.",
        note="Trusts model O3 (self-tested in C05) and the connectivity "
        "computation O2.", ref="5/C06"),
    "C07": dict(
        technique="property-based testing: zig-zag insertion generator, "
        "per-step oracle (legal interchange or snake-equation removal), exact "
        "tensor evaluation",
        text="Zig-zags (both directions, both adjoints, nested, obstructed by "
        "the diagram's own boxes) are inserted into connected rigid base "
        "diagrams, plus transposes / cups-caps of composite types / currying "
        "and a free generator; every yielded step is re-scanned, must be a "
        "single-box move legal by the model or the removal of an adjacent "
        "cap/cup pair in zig-zag position with equal outer types, and keeps "
        "the exact denotation; the result has no removable snake left. "
        "Exploration, not proof.",
        note="Wire following and the snake-equation test are re-implemented "
        "in the harness.", ref="5/C07"),
    "C08": dict(
        technique="property-based testing against numpy reference "
        "(matrix product, kron, conjugate transpose, permutation matrices), "
        "exact integer arithmetic",
        text="Generated Gaussian-integer tensors over dimension tuples of "
        "length 0-3 in {1,2,3}: then/tensor/dagger/id/swap/cups/caps are "
        "compared entry by entry with numpy references, including both snake "
        "equations on multi-wire types, the interchange law and swap "
        "naturality. Exploration, not proof.",
        note="numpy is the trusted reference; exact comparison.",
        ref="5/C08"),
    "C09": dict(
        technique="property-based testing: differential against an "
        "independent layer-by-layer reference evaluator, exact arithmetic",
        text="tensor.Functor on generated rigid diagrams (daggers, swaps, "
        "cups/caps with z != 0, dims as int or Dim, dict or callable, lists "
        "or arrays) and eval() of tensor diagrams (spiders, bubbles, sums) "
        "are compared exactly with a reference evaluator that never calls "
        "Tensor.then/tensor; invariance under interchange and normal_form "
        "(incl. snake removal). Exploration, not proof.",
        note="One dimension per atomic type; Gaussian-integer entries.",
        ref="5/C09"),
    "C10": dict(
        technique="exhaustive enumeration (all permutations of length <= 5/6, "
        "all block swaps up to 4x4, five classes) + property-based testing, "
        "wire tracking oracle",
        text="Every swap/permutation diagram must consist of adjacent swap "
        "boxes only, be well-typed, and its adjacent transpositions must "
        "carry input i to position perm[i] (resp. realise the block swap); "
        "codomain = permuted domain; non-permutations and length mismatches "
        "must raise. Exhaustive within the stated bounds.",
        note="Positions tracked from boxes/offsets by the harness.",
        ref="5/C10"),
    "C11": dict(
        technique="property-based testing: differential against tket's own "
        "gate unitaries and a numpy reference product",
        text="Single gates at generated phases are compared with "
        "pytket Op.get_unitary(); generated pure circuits (named gates, "
        "rotations, controlled rotations, Controlled(g), kets/bras, scalars, "
        "daggers) with the product of the embedded reference matrices by an "
        "evaluator that shares no code with the library; unitarity; dagger = "
        "conjugate transpose; rewire for all a != b. Exploration.",
        note="Literal layout reading fixed in DESIGN.md C11; tolerance 1e-9; "
        "pytket trusted.", ref="5/C11"),
    "C12": dict(
        technique="property-based testing + exhaustive box variants: "
        "differential against an independent density-matrix reference",
        text="Mixed evaluation of generated classical-quantum circuits (all "
        "Measure/Encode flag combinations, discards, mixed states, classical "
        "gates, scalars, bit/qubit swaps) is compared entry by entry with a "
        "reference written from the textbook definitions; pure circuits "
        "against the doubling of their pure evaluation; trace-preserving "
        "circuits: get_counts / measure / evaluation give one probability "
        "distribution; Born rule and marginals. Exploration.",
        note="Reference O6 independent of CQMap.tensor; tolerance 1e-9.",
        ref="5/C12"),
    "C13": dict(
        technique="property-based testing: translation round trips against "
        "an exact tket command-list simulator",
        text="Generated exportable circuits are exported with to_tk, run on "
        "an exact simulator that uses tket's own gate unitaries, post-"
        "selected / scaled / post-processed as recorded, and compared with "
        "the circuit's mixed evaluation and with the independent reference; "
        "eval and get_counts through an exact fake backend; from_tk(to_tk(c)); "
        "generated tket circuits imported and compared with the simulator "
        "and with tket's statevector. Exploration.",
        note="Four known findings (register bookkeeping, Controlled(Y)) are "
        "listed and their trigger classes excluded by construction.",
        ref="5/C13"),
    "C14": dict(
        technique="property-based testing: metamorphic (subs/eval commute, "
        "lambdify = subs) plus a spec-side substituted reference",
        text="Symbolic circuits, tensor diagrams and ZX diagrams with "
        "generated substitution plans (numbers, symbols, expressions, lists, "
        "partial then full): substitute-then-evaluate and evaluate-then-"
        "substitute are both compared with the reference evaluation of the "
        "spec in which every expression was replaced by its number; "
        "structure, dagger flags and mixedness preserved; free symbols "
        "exact. Exploration.", note="sympy trusted; tolerance 1e-8.",
        ref="5/C14"),
    "C15": dict(
        technique="property-based testing: symbolic differentiation of the "
        "evaluation vs evaluated gradient, plus numeric central differences "
        "of an independent reference",
        text="For generated parametrised circuits (pure and default "
        "gradients), tensor diagrams (with bubbles) and jacobians, the "
        "evaluated formal sum is compared at generated points with the sympy "
        "derivative of the library's symbolic evaluation and with a fourth-"
        "order central difference of the independent reference evaluators. "
        "Exploration.", note="Real symbols; one known finding "
        "(Scalar.grad ignores mixed, pinned by the test suite).",
        ref="5/C15"),
    "C16": dict(
        technique="property-based testing + exhaustive gate table: "
        "differential between circuit evaluation and the standard ZX "
        "interpretation of the translated diagram",
        text="circuit2zx images are read back box by box and interpreted by "
        "an independent ZX semantics; they must be proportional (one non-"
        "zero factor) to the circuit's reference and library evaluation, "
        "with equal arity; every gate at 17 phases; dagger of arbitrary ZX "
        "diagrams = conjugate transpose. Exploration.",
        note="O8 and O4 are harness code; tolerance 1e-9.", ref="5/C16"),
    "C17": dict(
        technique="property-based testing: differential against pyzx's own "
        "tensor semantics through a harness-side adapter",
        text="Generated simple ZX diagrams are exported and the pyzx matrix "
        "of the graph (scalar preserved) compared with the independent ZX "
        "semantics; re-import must be well-typed with equal arities and the "
        "same matrix up to scalar boxes; generated simple pyzx graphs in "
        "random vertex order are imported and compared with pyzx; ill-"
        "declared boundaries must raise ValueError. Exploration.",
        note="The installed pyzx is newer than the targeted one: an in-"
        "process adapter bridges the API (DESIGN.md O9).", ref="5/C17"),
    "C18": dict(
        technique="property-based testing: validity predicates on parser / "
        "generator outputs, independent type translation",
        text="eager_parse and brute_force outputs must be the given words in "
        "order followed by cups of adjacent adjoints with the target as "
        "codomain (and only exist when a reduction exists, decided by "
        "exhaustive search); CFG sentences must be derivations within the "
        "requested bounds; biclosed2rigid must map rule boxes, curryings and "
        "CCG trees over nested slash types to diagrams whose types equal the "
        "harness's own translation. Exploration.",
        note="brute_force is bounded by counting parse attempts.",
        ref="5/C18"),
    "C19": dict(
        technique="property-based testing + exhaustive small widths: "
        "differential against a string-term interpreter",
        text="Generated cartesian diagrams over formal-term functions are "
        "called on symbolic inputs and compared with an interpreter that "
        "splices outputs by offsets; Swap/Copy/Discard for all widths <= 4; "
        "naturality of swap, copy, discard; wrong input lengths must raise. "
        "Exploration.", note="Inputs are strings, never tuples.",
        ref="5/C19"),
    "C20": dict(
        technique="property-based testing: geometric validity predicates on "
        "the computed layout; rendering smoke runs; round trip through the "
        "function-call syntax",
        text="For generated diagrams the drawing graph must have exactly one "
        "node per input/output/box/port, edges equal to an independently "
        "scanned wiring, downward edges, vertical wires, strictly increasing "
        "open wires and boxes strictly between their neighbours; both back-"
        "ends must render; diagramize of a generated body must equal the "
        "original. Exploration.", note="Coordinates compared exactly.",
        ref="5/C20"),
    "C05": dict(
        technique="property-based testing (Hypothesis) + exhaustive small-"
        "scope enumeration against a model interchange and an exact "
        "reference evaluator",
        text="Generated (diagram, i, j, left) cases and interchange histories "
        "are decided by an independent planar-disjointness model (legal "
        "offsets, refusal), object identity of the permuted boxes, a wiring-"
        "graph comparison and exact integer tensor evaluation; all diagrams "
        "with <= 3 boxes / arity <= 2 / width <= 3 are enumerated "
        "exhaustively. Exploration: held on everything generated, not a "
        "proof.",
        note="Trusts the harness model O3 (self-tested: every model option "
        "preserves the wiring graph) and numpy. 'Wired' = not planar-"
        "disjoint.", ref="5/C05"),
}

PENDING = "check not built yet in this session (work in progress)"


def main():
    props = [json.loads(l)["id"] for l in open(
        os.path.join(ROOT, "properties.jsonl"))]
    checks, na = [], []
    for pid in props:
        if pid not in CHECKS:
            na.append(dict(property_id=pid, reason=PENDING))
            continue
        c = CHECKS[pid]
        checks.append(dict(
            property_id=pid,
            quick_cmd="{} -m harness.run {} --tier quick".format(PY, pid),
            thorough_cmd="{} -m harness.run {} --tier thorough".format(
                PY, pid),
            evidence_file="evidence/{}.json".format(pid),
            replay_cmd_template=PY + " -m harness.replay {path}",
            engine="harness",
            level_claimed=dict(category="exploration", text=c["text"],
                               design_ref="DESIGN.md section " + c["ref"]),
            level_note=c["note"], technique=c["technique"]))
    manifest = dict(
        version=1,
        setup_cmd="./setup.sh",
        hooks=dict(
            guard="DISCOPY_VERIF",
            enable="no hooks: every property is observed through the public "
            "API; checks import /repo's working tree directly "
            "(VERIF_REPO overrides the path)",
            baseline_off_cmd="cd /repo && /venv/bin/python -m pytest -ra -q "
            "-p no:cacheprovider --timeout=900 "
            "--continue-on-collection-errors",
            source_commits=[], add_only=True),
        engines=[dict(
            name="harness", path="harness/",
            serves_properties=[c["property_id"] for c in checks],
            kind_free_text="Hypothesis property-based testing with spec-first "
            "generators, independent reference oracles, exhaustive small-scope "
            "enumeration, replay files; atheris for coverage-guided campaigns")],
        checks=checks,
        notes="See DESIGN.md. known-findings.txt lists genuine defects "
        "(known / fixed). seeded/ holds independently written breaking "
        "changes used to validate the checks.",
        not_applicable=na)
    path = os.path.join(ROOT, "MANIFEST.json")
    with open(path, "w") as f:
        json.dump(manifest, f, indent=1)
    try:
        import jsonschema
        jsonschema.validate(manifest, json.load(
            open("/root/.vp/MANIFEST.schema.json")))
        print("MANIFEST.json valid:", len(checks), "checks,", len(na), "n/a")
    except ImportError:
        print("written (jsonschema not available to validate)")


if __name__ == "__main__":
    main()
