"""Writes /verif/MANIFEST.json from the table below (and validates it)."""
import os
import json

ROOT = os.path.dirname(os.path.dirname(os.path.dirname(
    os.path.abspath(__file__))))

PY = "/venv/bin/python"

CHECKS = {
    "C01": dict(
        technique="property-based testing: generated operation programs "
        "(histories) + re-scan type-checker oracle; ill-typed requests "
        "decided by key comparison",
        text="Programs of up to 25-40 public operations over pools of "
        "generated diagrams in all eight diagram classes; every returned or "
        "yielded value (including every rewrite step, foliation slice, sum "
        "term and bubble inside) is re-scanned from its domain by an "
        "independent checker that compares (name, z) keys and the per-layer "
        "view; ill-typed requests must raise. Exploration, not proof.",
        note="Trusts the harness re-scan O1; exotic slices only need to raise "
        "or be well-typed; an AxiomError on a request O1 deems well-typed is "
        "reported, other exception types are counted as refusals.",
        ref="5/C01"),
    "C02": dict(
        technique="property-based testing: metamorphic algebraic laws as == "
        "plus structural-key comparison and spec-side expected composites",
        text="Composable and arbitrary triples and formal sums of generated "
        "diagrams in all eight classes; each listed law is asserted with == "
        "in both directions and by structural keys read from attributes, and "
        "composites/tensors/daggers are compared with the harness-side "
        "concatenation of the specs. Exploration, not proof.",
        note="Both sides of a law come from the library; independence comes "
        "from the spec-side expectation and the key comparison. cartesian "
        "defines no dagger (clauses skipped there).", ref="5/C02"),
    "C05": dict(
        technique="property-based testing (Hypothesis) + exhaustive small-"
        "scope enumeration against a model interchange and an exact "
        "reference evaluator",
        text="Generated (diagram, i, j, left) cases and interchange histories "
        "are decided by an independent planar-disjointness model (legal "
        "offsets, refusal), object identity of the permuted boxes, a wiring-"
        "graph comparison and exact integer tensor evaluation; all diagrams "
        "with <= 3 boxes / arity <= 2 / width <= 3 are enumerated "
        "exhaustively. Exploration: held on everything generated, not a "
        "proof.",
        note="Trusts the harness model O3 (self-tested: every model option "
        "preserves the wiring graph) and numpy. 'Wired' = not planar-"
        "disjoint.", ref="5/C05"),
}

PENDING = "check not built yet in this session (work in progress)"


def main():
    props = [json.loads(l)["id"] for l in open(
        os.path.join(ROOT, "properties.jsonl"))]
    checks, na = [], []
    for pid in props:
        if pid not in CHECKS:
            na.append(dict(property_id=pid, reason=PENDING))
            continue
        c = CHECKS[pid]
        checks.append(dict(
            property_id=pid,
            quick_cmd="{} -m harness.run {} --tier quick".format(PY, pid),
            thorough_cmd="{} -m harness.run {} --tier thorough".format(
                PY, pid),
            evidence_file="evidence/{}.json".format(pid),
            replay_cmd_template=PY + " -m harness.replay {path}",
            engine="harness",
            level_claimed=dict(category="exploration", text=c["text"],
                               design_ref="DESIGN.md section " + c["ref"]),
            level_note=c["note"], technique=c["technique"]))
    manifest = dict(
        version=1,
        setup_cmd="./setup.sh",
        hooks=dict(
            guard="DISCOPY_VERIF",
            enable="no hooks: every property is observed through the public "
            "API; checks import /repo's working tree directly "
            "(VERIF_REPO overrides the path)",
            baseline_off_cmd="cd /repo && /venv/bin/python -m pytest -ra -q "
            "-p no:cacheprovider --timeout=900 "
            "--continue-on-collection-errors",
            source_commits=[], add_only=True),
        engines=[dict(
            name="harness", path="harness/",
            serves_properties=[c["property_id"] for c in checks],
            kind_free_text="Hypothesis property-based testing with spec-first "
            "generators, independent reference oracles, exhaustive small-scope "
            "enumeration, replay files; atheris for coverage-guided campaigns")],
        checks=checks,
        notes="See DESIGN.md. known-findings.txt lists genuine defects "
        "(known / fixed). seeded/ holds independently written breaking "
        "changes used to validate the checks.",
        not_applicable=na)
    path = os.path.join(ROOT, "MANIFEST.json")
    with open(path, "w") as f:
        json.dump(manifest, f, indent=1)
    try:
        import jsonschema
        jsonschema.validate(manifest, json.load(
            open("/root/.vp/MANIFEST.schema.json")))
        print("MANIFEST.json valid:", len(checks), "checks,", len(na), "n/a")
    except ImportError:
        print("written (jsonschema not available to validate)")


if __name__ == "__main__":
    main()
