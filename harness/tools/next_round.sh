#!/bin/sh
# Development tool: prepare round N of independently written breaking changes
# from the prompts of round N-1 (/tmp/seed-prompts) and the kept changes of
# that round (seeded/Cxx-r<N-1>/meta.json); creates the scratch worktrees.
# usage: harness/tools/next_round.sh N
cd "$(dirname "$0")/../.."
n=$1; p=$((n - 1))
for i in $(seq -w 1 20); do
  /venv/bin/python - "$i" "$n" "$p" <<'PY'
import json, re, sys
i, n, p = sys.argv[1], int(sys.argv[2]), int(sys.argv[3])
text = open("/tmp/seed-prompts/C{}-r{}.txt".format(i, p)).read()
text = text.replace("/tmp/seed{}-".format(p), "/tmp/seed{}-".format(n))
try:
    meta = json.load(open("seeded/C{}-r{}/meta.json".format(i, p)))
    item = "  {}. {} (files: {})\n".format(
        p, meta["summary"][:300], ", ".join(meta["files"]))
    marker = "- Read the statement again clause by clause"
    text = text.replace(marker, item + marker)
except FileNotFoundError:
    pass
open("/tmp/seed-prompts/C{}-r{}.txt".format(i, n), "w").write(text)
PY
  git -C /repo worktree add --detach /tmp/seed$n-C$i HEAD >/dev/null 2>&1
done
git -C /repo worktree list | grep -c "seed$n-"
