"""Self-validation: seeded faults in a scratch copy of discopy (never in /repo).

    python -m harness.tools.mutants [Cxx ...] [--only NAME] [--tier quick]

For each mutant: copy /repo/discopy to a scratch directory under /tmp, replace
one string in one file, run the property's command with VERIF_REPO pointing at
the copy, expect exit 1 with a VIOLATION line, delete the copy.  Also accepts
patch files (seeded/<id>/patch.diff) via --patch.
Not a registered check: a development tool.
"""
import os
import sys
import json
import shutil
import argparse
import tempfile
import subprocess

ROOT = os.path.dirname(os.path.dirname(os.path.dirname(
    os.path.abspath(__file__))))

# (property, name, file, old, new)
MUTANTS = [
    ("C05", "off1-domcod-swapped", "rewriting.py",
     "    elif off1 >= off0 + len(box0.cod):  # box0 left of box1\n"
     "        off1 = off1 - len(box0.cod) + len(box0.dom)",
     "    elif off1 >= off0 + len(box0.cod):  # box0 left of box1\n"
     "        off1 = off1 - len(box0.dom) + len(box0.cod)"),
    ("C05", "ge-to-gt", "rewriting.py",
     "    elif off0 >= off1 + len(box1.dom):  # box0 right of box1",
     "    elif off0 > off1 + len(box1.dom):  # box0 right of box1"),
    ("C05", "middle-uses-dom", "rewriting.py",
     "        middle = left1[len(left0 @ box0.cod):]\n"
     "        layer0 = Layer(left0, box0, middle @ box1.cod @ right1)\n"
     "        layer1 = Layer(left0 @ box0.dom @ middle, box1, right1)\n"
     "    else:",
     "        middle = left1[len(left0 @ box0.dom):]\n"
     "        layer0 = Layer(left0, box0, middle @ box1.cod @ right1)\n"
     "        layer1 = Layer(left0 @ box0.dom @ middle, box1, right1)\n"
     "    else:"),
    ("C05", "compound-range", "rewriting.py",
     "        for k in range(j - i):\n"
     "            result = result.interchange(i + k, i + k + 1, left=left)",
     "        for k in range(j - i - 1):\n"
     "            result = result.interchange(i + k, i + k + 1, left=left)"),
]


def run_mutant(pid, name, fname, old, new, tier, patch=None, facets=None):
    tmp = tempfile.mkdtemp(prefix="verif-mut-")
    try:
        shutil.copytree("/repo/discopy", os.path.join(tmp, "discopy"),
                        ignore=shutil.ignore_patterns("__pycache__"))
        if patch:
            subprocess.run(["patch", "-p1", "-d", tmp, "-i", patch],
                           check=True, stdout=subprocess.DEVNULL)
        else:
            path = os.path.join(tmp, "discopy", fname)
            text = open(path).read()
            if text.count(old) != 1:
                return "BAD-MUTANT ({} occurrences)".format(text.count(old))
            open(path, "w").write(text.replace(old, new))
        env = dict(os.environ, VERIF_REPO=tmp, VERIF_EVIDENCE_DIR=tmp)
        cmd = [sys.executable, "-m", "harness.run", pid, "--tier", tier]
        for f in facets or ():
            cmd += ["--facet", f]
        try:
            res = subprocess.run(cmd, cwd=ROOT, env=env, capture_output=True,
                                 text=True, timeout=1500)
        except subprocess.TimeoutExpired:
            subprocess.run(["pkill", "-9", "-f", "harness.run " + pid])
            return "TIMEOUT (1500 s)"
        lines = [l for l in res.stdout.splitlines()
                 if l.startswith(("VIOLATION", "  facet", "HARNESS"))]
        return "exit={} {}".format(res.returncode, " | ".join(lines[:4]))
    finally:
        shutil.rmtree(tmp, ignore_errors=True)


def main():
    parser = argparse.ArgumentParser()
    parser.add_argument("props", nargs="*")
    parser.add_argument("--only")
    parser.add_argument("--tier", default="quick")
    parser.add_argument("--patch")
    parser.add_argument("--facet", action="append")
    args = parser.parse_args()
    if args.patch:
        for pid in args.props:
            print(pid, args.patch, run_mutant(
                pid, "patch", None, None, None, args.tier, args.patch,
                args.facet))
        return
    for pid, name, fname, old, new in all_mutants():
        if args.props and pid not in args.props:
            continue
        if args.only and args.only != name:
            continue
        print(pid, name, run_mutant(pid, name, fname, old, new, args.tier,
                                    facets=args.facet))
        sys.stdout.flush()


def all_mutants():
    out = list(MUTANTS)
    extra = os.path.join(ROOT, "harness", "tools", "mutants.json")
    if os.path.exists(extra):
        out += [tuple(m) for m in json.load(open(extra))]
    return out


if __name__ == "__main__":
    main()
