#!/bin/sh
# Development tool: run every quick check at several seeds; print exit codes.
# usage: harness/tools/sweep.sh "2 3 4" [tier] ["C01 C06 ..."]
cd "$(dirname "$0")/../.."
tier=${2:-quick}
props=${3:-C01 C02 C03 C04 C05 C06 C07 C08 C09 C10 C11 C12 C13 C14 C15 C16 C17 C18 C19 C20}
for s in $1; do
  for p in $props; do
    out=$(VERIF_SEED=$s VERIF_EVIDENCE_DIR=/tmp/verif-sweep-$$ /venv/bin/python -m harness.run $p --tier $tier 2>&1 | grep "^VIOLATION\|^  facet\|^HARNESS\|^C[0-9][0-9] tier" | cut -c1-400)
    echo "seed=$s $out"
  done
done
rm -rf /tmp/verif-sweep-$$
