"""Seeded (independently written) breaking changes: ingest, confirm, evaluate.

    python -m harness.tools.seeded ingest <Cxx> <source dir> [--name NAME]
        copy patch.diff / demo.py / meta.json into /verif/seeded/<NAME>/,
        confirm in a scratch worktree that (1) the pinned suite still passes
        with the patch, (2) demo.py fails with it and passes without it, then
        run the property's quick check against the patched tree and record
        everything in meta.json.
    python -m harness.tools.seeded run [NAME ...] [--tier quick]
        re-run the checks against the kept patches and print a table.

Scratch worktrees live under /tmp and are removed afterwards. Nothing is ever
applied to /repo.
"""
import os
import sys
import json
import shutil
import argparse
import tempfile
import subprocess
import xml.etree.ElementTree as ET

ROOT = os.path.dirname(os.path.dirname(os.path.dirname(
    os.path.abspath(__file__))))
SEEDED = os.path.join(ROOT, "seeded")
PY = "/venv/bin/python"


def sh(cmd, cwd=None, env=None, timeout=3000):
    return subprocess.run(cmd, shell=True, cwd=cwd, env=env, text=True,
                          capture_output=True, timeout=timeout)


def scratch_worktree():
    path = tempfile.mkdtemp(prefix="verif-seed-")
    os.rmdir(path)
    res = sh("git -C /repo worktree add -q --detach {} HEAD".format(path))
    if res.returncode:
        raise RuntimeError(res.stderr)
    return path


def remove_worktree(path):
    sh("git -C /repo worktree remove --force {}".format(path))
    shutil.rmtree(path, ignore_errors=True)


def suite(path):
    """ Names of passing tests of the pinned suite run inside `path`. """
    base = json.load(open("/root/.vp/BASELINE.json"))
    xml = os.path.join(path, "junit.xml")
    env = dict(os.environ, MPLBACKEND="Agg")
    sh("{} -m pytest -ra -q -p no:cacheprovider --timeout=900 "
       "--continue-on-collection-errors --junitxml={}".format(PY, xml),
       cwd=path, env=env)
    passed = set()
    for case in ET.parse(xml).getroot().iter("testcase"):
        if not any(c.tag in ("failure", "error", "skipped") for c in case):
            passed.add("{}::{}".format(case.get("classname"),
                                       case.get("name")))
    os.remove(xml)
    missing = [t for t in base["stable_pass"] if t not in passed]
    return len(base["stable_pass"]) - len(missing), missing


def run_check(pid, wt, tier="quick", facets=None):
    tmp = tempfile.mkdtemp(prefix="verif-seedout-")
    try:
        env = dict(os.environ, VERIF_REPO=wt, VERIF_EVIDENCE_DIR=tmp)
        cmd = "{} -m harness.run {} --tier {}".format(PY, pid, tier)
        for f in facets or ():
            cmd += " --facet " + f
        res = sh(cmd, cwd=ROOT, env=env)
        lines = [l for l in res.stdout.splitlines()
                 if l.startswith(("VIOLATION", "  facet", "HARNESS"))]
        return res.returncode, lines[:6]
    finally:
        shutil.rmtree(tmp, ignore_errors=True)


def ingest(pid, source, name=None):
    name = name or pid
    dest = os.path.join(SEEDED, name)
    os.makedirs(dest, exist_ok=True)
    for f in ("patch.diff", "demo.py", "meta.json", "pyzx_shim.py"):
        if os.path.exists(os.path.join(source, f)):
            shutil.copy(os.path.join(source, f), os.path.join(dest, f))
    meta = json.load(open(os.path.join(dest, "meta.json")))
    meta["property"] = pid
    wt = scratch_worktree()
    try:
        extra = [f for f in ("demo.py", "pyzx_shim.py")
                 if os.path.exists(os.path.join(dest, f))]
        for f in extra:  # the demos name their worktree: point them here
            text = open(os.path.join(dest, f)).read()
            import re
            text = re.sub(r"/tmp/seed\d*-" + pid + r"(?![0-9])", wt, text)
            text = text.replace("/tmp/seed-" + name, wt)
            open(os.path.join(wt, f), "w").write(text)
        demo0 = sh("{} demo.py".format(PY), cwd=wt,
                   env=dict(os.environ, MPLBACKEND="Agg"))
        res = sh("git apply {}".format(os.path.join(dest, "patch.diff")),
                 cwd=wt)
        if res.returncode:
            raise RuntimeError("patch does not apply: " + res.stderr)
        n_pass, missing = suite(wt)
        demo1 = sh("{} demo.py".format(PY), cwd=wt,
                   env=dict(os.environ, MPLBACKEND="Agg"))
        code, lines = run_check(pid, wt)
        meta["confirmed"] = dict(
            suite_passing_with_patch=n_pass, suite_missing=missing,
            demo_exit_without_patch=demo0.returncode,
            demo_exit_with_patch=demo1.returncode,
            demo_output_with_patch=(demo1.stdout + demo1.stderr)[-600:],
            ran=["git apply patch.diff in a scratch worktree of /repo HEAD",
                 "pinned pytest command inside the worktree",
                 "python demo.py with and without the patch",
                 "python -m harness.run {} --tier quick with VERIF_REPO="
                 "<worktree>".format(pid)])
        meta["kept"] = bool(n_pass == 219 and demo0.returncode == 0
                            and demo1.returncode != 0)
        meta["check"] = dict(exit=code, lines=lines,
                             detected=code == 1)
    finally:
        remove_worktree(wt)
    json.dump(meta, open(os.path.join(dest, "meta.json"), "w"), indent=1)
    print(name, "kept" if meta["kept"] else "NOT-KEPT",
          "suite", n_pass, "demo", demo0.returncode, "->", demo1.returncode,
          "| check exit", code, " | ".join(lines[:2])[:300])
    return meta


def rerun(names, tier, all_props=False):
    rows = []
    for name in sorted(os.listdir(SEEDED)):
        path = os.path.join(SEEDED, name)
        if not os.path.isdir(path) or (names and name not in names):
            continue
        meta = json.load(open(os.path.join(path, "meta.json")))
        if not meta.get("kept"):
            continue
        wt = scratch_worktree()
        try:
            sh("git apply {}".format(os.path.join(path, "patch.diff")),
               cwd=wt)
            code, lines = run_check(meta["property"], wt, tier)
        finally:
            remove_worktree(wt)
        meta["check"] = dict(exit=code, lines=lines, detected=code == 1,
                             tier=tier)
        json.dump(meta, open(os.path.join(path, "meta.json"), "w"), indent=1)
        rows.append((name, meta["property"], code, (lines or [""])[-1][:160]))
        print(*rows[-1])
        sys.stdout.flush()
    return rows


def robust(names, seeds):
    """ Which kept changes does the quick tier miss at other VERIF_SEED
    values? Nothing is recorded. """
    for name in sorted(os.listdir(SEEDED)):
        path = os.path.join(SEEDED, name)
        if not os.path.isdir(path) or (names and name not in names)\
                or not os.path.exists(os.path.join(path, "meta.json")):
            continue
        meta = json.load(open(os.path.join(path, "meta.json")))
        if not meta.get("kept"):
            continue
        wt = scratch_worktree()
        try:
            sh("git apply {}".format(os.path.join(path, "patch.diff")), cwd=wt)
            codes = []
            for seed in seeds:
                os.environ["VERIF_SEED"] = str(seed)
                code, _ = run_check(meta["property"], wt, "quick")
                codes.append(code)
        finally:
            os.environ.pop("VERIF_SEED", None)
            remove_worktree(wt)
        print(name, "seeds", seeds, "exit", codes,
              "" if all(c == 1 for c in codes) else "<-- MARGINAL")
        sys.stdout.flush()


def readme():
    """ Regenerate seeded/README.md from the meta.json files. """
    rows = []
    for name in sorted(os.listdir(SEEDED)):
        path = os.path.join(SEEDED, name, "meta.json")
        if not os.path.exists(path):
            continue
        meta = json.load(open(path))
        if not meta.get("kept"):
            continue
        check = meta.get("check", {})
        line = next((l for l in check.get("lines", ()) if "facet=" in l), "")
        rows.append("| {} | {} | {} | {} | {} |".format(
            name, meta["property"], "yes" if check.get("detected") else "NO",
            line.strip()[:120].replace("|", "/"),
            str(meta.get("summary", ""))[:160].replace("|", "/").replace(
                "\n", " ")))
    text = open(os.path.join(SEEDED, "_head.md")).read()
    text += "| seed | property | detected by quick check | first failing "\
        "facet / label | change |\n|---|---|---|---|---|\n"
    text += "\n".join(rows) + "\n\n"
    text += open(os.path.join(SEEDED, "_tail.md")).read()
    open(os.path.join(SEEDED, "README.md"), "w").write(text)
    print(len(rows), "rows")


def main():
    parser = argparse.ArgumentParser()
    sub = parser.add_subparsers(dest="cmd")
    a = sub.add_parser("ingest")
    a.add_argument("property")
    a.add_argument("source")
    a.add_argument("--name")
    b = sub.add_parser("run")
    b.add_argument("names", nargs="*")
    b.add_argument("--tier", default="quick")
    sub.add_parser("readme")
    c = sub.add_parser("robust")
    c.add_argument("names", nargs="*")
    c.add_argument("--seeds", default="2,3")
    args = parser.parse_args()
    if args.cmd == "readme":
        readme()
    elif args.cmd == "robust":
        robust(args.names, [int(x) for x in args.seeds.split(",")])
    elif args.cmd == "ingest":
        ingest(args.property, args.source, args.name)
    else:
        rerun(args.names, args.tier)


if __name__ == "__main__":
    main()
