#!/bin/sh
# Development tool: ingest every finished seeded change of a round.
# usage: harness/tools/ingest_round.sh <round number> [Cxx ...]
cd "$(dirname "$0")/../.."
r=$1; shift
props=${*:-C01 C02 C03 C04 C05 C06 C07 C08 C09 C10 C11 C12 C13 C14 C15 C16 C17 C18 C19 C20}
for p in $props; do
  src=/tmp/seed$r-$p
  if [ -f $src/meta.json ] && [ -f $src/patch.diff ] && [ -f $src/demo.py ] && [ ! -f seeded/$p-r$r/meta.json ]; then
    /venv/bin/python -m harness.tools.seeded ingest $p $src --name $p-r$r 2>&1 | grep -v conda | cut -c1-300
  fi
done
