"""Runs /repo's pinned test suite (command from /root/.vp/BASELINE.json) and
checks that every test of the stable baseline still passes.

    python -m harness.tools.baseline        (exit 0 iff all 219 pass)
"""
import os
import sys
import json
import tempfile
import subprocess
import xml.etree.ElementTree as ET


def main():
    base = json.load(open("/root/.vp/BASELINE.json"))
    fd, path = tempfile.mkstemp(suffix=".xml", prefix="verif-junit-")
    os.close(fd)
    cmd = base["cmd"].replace("<file>", path)
    env = dict(os.environ, MPLBACKEND="Agg")
    for key in ("DISCOPY_VERIF",):
        env.pop(key, None)
    res = subprocess.run(cmd, shell=True, env=env, capture_output=True,
                         text=True)
    passed = set()
    for case in ET.parse(path).getroot().iter("testcase"):
        if not any(child.tag in ("failure", "error", "skipped")
                   for child in case):
            passed.add("{}::{}".format(case.get("classname"),
                                       case.get("name")))
    os.remove(path)
    missing = [t for t in base["stable_pass"] if t not in passed]
    print("baseline: {} of {} stable tests pass".format(
        len(base["stable_pass"]) - len(missing), len(base["stable_pass"])))
    for t in missing:
        print("  NOT PASSING:", t)
    if missing:
        print(res.stdout[-3000:])
    subprocess.run("git -C /repo status --short | head", shell=True)
    return 1 if missing else 0


if __name__ == "__main__":
    sys.exit(main())
