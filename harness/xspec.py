"""Specs for biclosed diagrams (class "biclosed") and cartesian diagrams
(class "cartesian").

biclosed objects : [name, 0] | {"o": [left, right]} | {"u": [left, right]}
                   (Over(left, right) = left << right, Under = left >> right)
biclosed boxes   : generic {"k": "box", ...} and rule boxes
    {"k": "bi", "g": "FA", "t": over}           FA(over)
    {"k": "bi", "g": "BA", "t": under}          BA(under)
    {"k": "bi", "g": "FC"|"BC"|"FX"|"BX", "l": obj, "r": obj}
    {"k": "bi", "g": "Curry", "d": diagram spec, "n": n_wires, "left": bool}
cartesian boxes  : {"k": "fn", "name": str, "n": [n_in, n_out]} with the
                   string-term function of oracle O10; names SWAP / COPY /
                   DISCARD denote the module constants.
"""
from harness import specs
from harness.core import HarnessError

DIAGRAM_CLASSES = ["biclosed", "cartesian"]


# ------------------------------------------------------------------ biclosed

def over(left, right):
    return {"o": [left, right]}


def under(left, right):
    return {"u": [left, right]}


def parts(obj):
    (tag, (left, right)), = obj.items()
    return tag, left, right


def bi_sig(b):
    g = b["g"]
    if g == "FA":
        tag, left, right = parts(b["t"])
        assert tag == "o"
        return [b["t"]] + list(right), list(left)
    if g == "BA":
        tag, left, right = parts(b["t"])
        assert tag == "u"
        return list(left) + [b["t"]], list(right)
    if g in ("FC", "BC", "FX", "BX"):
        lt, ll, lr = parts(b["l"])
        rt, rl, rr = parts(b["r"])
        if g == "FC":      # (A << B) @ (B << C) -> A << C
            cod = over(ll, rr)
        elif g == "BC":    # (A >> B) @ (B >> C) -> A >> C
            cod = under(ll, rr)
        elif g == "FX":    # (A << B) @ (C >> B) -> C >> A
            cod = under(rl, ll)
        else:              # BX: (A << B) @ (A >> C) -> C << B
            cod = over(rr, lr)
        return [b["l"], b["r"]], [cod]
    if g == "Curry":
        d = b["d"]
        dom, cod = d["dom"], specs.spec_cod(d)
        n = b["n"]
        if b["left"]:
            return list(dom[n:]), [under(list(dom[:n]), cod)]
        return list(dom[:len(dom) - n]), [over(cod, list(dom[len(dom) - n:]))]
    raise HarnessError(g)


specs.register_kind("bi", lambda b: bi_sig(b)[0], lambda b: bi_sig(b)[1])


def bty(t):
    from discopy import biclosed
    return biclosed.Ty().tensor(*[bob(x) for x in t]) if t else biclosed.Ty()


def bob(x):
    from discopy import biclosed
    if isinstance(x, dict):
        tag, left, right = parts(x)
        return (biclosed.Over if tag == "o" else biclosed.Under)(
            bty(left), bty(right))
    return biclosed.Ty(x[0])


def _bi_box(b):
    from discopy import biclosed
    if b["k"] == "box" and b.get("word"):
        return specs.word_box("biclosed", b)
    if b["k"] == "box":
        box = biclosed.Box(b["name"], bty(b["cod"] if b.get("dag")
                                          else b["dom"]),
                           bty(b["dom"] if b.get("dag") else b["cod"]))
        return box.dagger() if b.get("dag") else box
    g = b["g"]
    if g == "FA":
        return biclosed.FA(bob(b["t"]))
    if g == "BA":
        return biclosed.BA(bob(b["t"]))
    if g in ("FC", "BC", "FX", "BX"):
        return getattr(biclosed, g)(bob(b["l"]), bob(b["r"]))
    if g == "Curry":
        return biclosed.Curry(specs.build(b["d"]), b["n"], b["left"])
    raise HarnessError(g)


def _bi_mod():
    from discopy import biclosed
    return biclosed


specs.register_class("biclosed", _bi_mod, bty, _bi_box)


def rigid_image(t):
    """ The harness's own translation of a biclosed type spec into a rigid
    type spec: Over(a, b) -> T(a) . T(b)^l ; Under(a, b) -> T(a)^r . T(b). """
    out = []
    for x in t:
        if isinstance(x, dict):
            tag, left, right = parts(x)
            if tag == "o":
                out += rigid_image(left) + adjoint(rigid_image(right), -1)
            else:
                out += adjoint(rigid_image(left), 1) + rigid_image(right)
        else:
            out.append([x[0], 0])
    return out


def adjoint(t, dz):
    return [[n, z + dz] for n, z in reversed(t)]


# ------------------------------------------------------------------ cartesian

def fn_sig(b):
    return [[1, 0]] * b["n"][0], [[1, 0]] * b["n"][1]


specs.register_kind("fn", lambda b: fn_sig(b)[0], lambda b: fn_sig(b)[1])


def term_label(b):
    """ Name used in the formal terms of a box: two boxes may share their
    name and arity (the library deems them equal) and still compute different
    functions, e.g. closures made by one factory. """
    return str(b["name"]) + ("~" * b.get("v", 0))


def term_function(name, n_out, label=None):
    """ O10: box `name` with k outputs returns "name.j(x1,...)" strings: a
    bare value for one output, () for none, a tuple otherwise. Boxes whose
    name ends in "t" are written in the library's own `lambda *xs: tuple`
    style (as its COPY and DISCARD) and return a 1-tuple for one output. """
    label = label or name

    def function(*xs):
        terms = tuple("{}.{}({})".format(label, j, ",".join(map(str, xs)))
                      for j in range(n_out))
        return terms[0] if n_out == 1 and not name.endswith("t") else terms
    function.__name__ = str(name)
    return function


_CACHE = {}


def _cart_box(b):
    from discopy import cartesian
    if b["k"] != "fn":
        raise HarnessError(b["k"])
    consts = {"SWAP": cartesian.SWAP, "COPY": cartesian.COPY,
              "DISCARD": cartesian.DISCARD}
    if b["name"] in consts:
        return consts[b["name"]]
    key = (b["name"], tuple(b["n"]), b.get("v", 0))
    if key not in _CACHE:
        _CACHE[key] = cartesian.Box(
            b["name"], b["n"][0], b["n"][1],
            term_function(b["name"], b["n"][1], term_label(b)))
    return _CACHE[key]


def _cart_mod():
    from discopy import cartesian
    return cartesian


def _cart_ty(t):
    from discopy.rigid import PRO
    return PRO(len(t))


specs.register_class(
    "cartesian", _cart_mod, _cart_ty, _cart_box,
    idf=lambda t: _cart_mod().Id(len(t)),
    diagram=lambda dom, cod, boxes, offsets: _cart_mod().Diagram(
        len(dom), len(cod), boxes, offsets))


# ------------------------------------------------------------------ generators

def bi_types(max_len=2, depth=2, min_len=0):
    """ Strategy for biclosed type specs (lists of objects). """
    from hypothesis import strategies as st
    atom = st.sampled_from(["x", "y", "z"]).map(lambda n: [n, 0])

    def extend(inner):
        side = st.lists(inner, min_size=0, max_size=2)
        return st.one_of(
            st.tuples(side, side).map(lambda lr: over(lr[0], lr[1])),
            st.tuples(side, side).map(lambda lr: under(lr[0], lr[1])))
    obj = st.recursive(atom, extend, max_leaves=5)
    return st.lists(obj, min_size=min_len, max_size=max(min_len, max_len))


def cart_layer(scan, max_width):
    from hypothesis import strategies as st

    @st.composite
    def strat(draw):
        opts = ["fn", "fn", "fn"]
        if scan:
            opts += ["COPY", "DISCARD"]
        if len(scan) >= 2:
            opts += ["SWAP"]
        kind = draw(st.sampled_from(opts))
        if kind == "SWAP":
            return {"k": "fn", "name": "SWAP", "n": [2, 2]},\
                draw(st.integers(0, len(scan) - 2))
        if kind == "COPY" and len(scan) < max_width:
            return {"k": "fn", "name": "COPY", "n": [1, 2]},\
                draw(st.integers(0, len(scan) - 1))
        if kind == "DISCARD":
            return {"k": "fn", "name": "DISCARD", "n": [1, 0]},\
                draw(st.integers(0, len(scan) - 1))
        n_in = draw(st.integers(0, min(3, len(scan))))
        off = draw(st.integers(0, len(scan) - n_in))
        room = max_width - len(scan) + n_in
        n_out = draw(st.integers(0, max(0, min(3, room))))
        b = {"k": "fn", "name": draw(st.sampled_from(
            ["f", "g", "h", "ft", "gt"])), "n": [n_in, n_out]}
        if draw(st.integers(0, 3)) == 0:
            b["v"] = 1   # same name and arity, another function
        return b, off
    return strat()


def _install():
    from harness import gen
    gen.CLASS_NAMES["cartesian"] = [1]
    gen.CLASS_NAMES["biclosed"] = ["x", "y", "z"]
    gen.LAYER_FN["cartesian"] = cart_layer
    gen.KINDS["biclosed"] = ("box", "dagger")


_install()
