"""Hypothesis strategies producing specs for free monoidal / rigid diagrams.

All strategies are constructive: a running scan of the open wires decides which
boxes and offsets are legal, so nothing is filtered.
"""
from hypothesis import strategies as st

NAMES = ["a", "b", "c"]
BOXNAMES = ["f", "g", "h", "k"]


def _o(x):
    return list(x) if isinstance(x, (list, tuple)) else x


def obj(cls, names=NAMES, zmax=1):
    if cls == "rigid":
        return st.tuples(st.sampled_from(names),
                         st.integers(-zmax, zmax)).map(list)
    return st.sampled_from(names).map(lambda n: [n, 0])


def types(cls, min_len=0, max_len=3, names=NAMES, zmax=1):
    if cls == "biclosed":
        from harness import xspec
        return xspec.bi_types(max_len, min_len=min_len)
    return st.lists(obj(cls, names, zmax), min_size=min_len, max_size=max_len)


def find(scan, pattern):
    n = len(pattern)
    return [i for i in range(len(scan) - n + 1) if scan[i:i + n] == pattern]


@st.composite
def layer(draw, cls, scan, pool, kinds, max_width, names=NAMES, zmax=1,
          max_arity=3, data=False, min_dom=0, min_cod=0):
    """ Draw one (boxspec, offset) legal on `scan`; may extend `pool`. """
    options = []
    if "box" in kinds:
        options += ["new", "new"]
        if any(find(scan, g["dom"]) for g in pool
               if len(scan) - len(g["dom"]) + len(g["cod"]) <= max_width):
            options += ["reuse", "reuse"]
        if "dagger" in kinds and any(
                find(scan, g["cod"]) for g in pool
                if len(scan) - len(g["cod"]) + len(g["dom"]) <= max_width):
            options += ["reuse-dag"]
    if "swap" in kinds and len(scan) >= 2:
        options.append("swap")
    if "cup" in kinds and cup_positions(scan):
        options += ["cup", "cup"]
    if "cap" in kinds and len(scan) + 2 <= max_width:
        options.append("cap")
    if "spider" in kinds:
        options.append("spider")
    if not options:
        options = ["new"]
    kind = draw(st.sampled_from(options))
    if kind == "swap":
        off = draw(st.integers(0, len(scan) - 2))
        return {"k": "swap", "l": scan[off], "r": scan[off + 1]}, off
    if kind == "cup":
        off = draw(st.sampled_from(cup_positions(scan)))
        return {"k": "cup", "l": scan[off], "r": scan[off + 1]}, off
    if kind == "cap":
        off = draw(st.integers(0, len(scan)))
        n, z = draw(obj(cls, names, zmax))
        dz = draw(st.sampled_from([-1, 1]))
        return {"k": "cap", "l": [n, z], "r": [n, z + dz]}, off
    if kind == "spider":
        t = draw(obj(cls, names, 0))
        places = [i for i in range(len(scan) + 1)]
        off = draw(st.sampled_from(places))
        n_in = 0
        while off + n_in < len(scan) and scan[off + n_in] == t and n_in < 3\
                and draw(st.booleans()):
            n_in += 1
        room = max(0, max_width - len(scan) + n_in)
        n_out = draw(st.integers(0 if n_in else min(1, room), min(3, room)))
        return {"k": "spider", "n": [n_in, n_out], "t": t}, off
    if kind in ("reuse", "reuse-dag"):
        key, other = ("dom", "cod") if kind == "reuse" else ("cod", "dom")
        cands = [(i, off) for i, g in enumerate(pool)
                 if len(scan) - len(g[key]) + len(g[other]) <= max_width
                 for off in find(scan, g[key])]
        i, off = draw(st.sampled_from(cands))
        g = pool[i]
        if kind == "reuse":
            return dict(g, k="box", dag=False), off
        return dict(g, k="box", dom=g["cod"], cod=g["dom"], dag=True), off
    nd = draw(st.integers(min(min_dom, len(scan)),
                          min(max_arity, len(scan))))
    off = draw(st.integers(0, len(scan) - nd))
    room = max(0, max_width - len(scan) + nd)
    cod = draw(types(cls, min(min_cod, room), min(max_arity, room), names,
                     zmax))
    name = draw(st.sampled_from(BOXNAMES))
    gen = {"name": name, "dom": scan[off:off + nd], "cod": cod}
    if data:
        gen["data"] = draw(payloads())
    if cls in WORD_CLASSES and draw(st.integers(0, 5)) == 0:
        gen["word"] = True   # a grammar Word instead of a plain Box
    if "dagger" in kinds and draw(st.integers(0, 3)) == 0:
        gen = dict(gen, dom=gen["cod"], cod=gen["dom"])
        pool.append(gen)
        return dict(gen, k="box", dom=gen["cod"], cod=gen["dom"], dag=True),\
            off
    pool.append(gen)
    return dict(gen, k="box", dag=False), off


def cup_positions(scan):
    return [i for i in range(len(scan) - 1)
            if scan[i][0] == scan[i + 1][0]
            and abs(scan[i][1] - scan[i + 1][1]) == 1]


def payloads():
    leaf = st.one_of(
        st.none(), st.integers(-3, 3),
        st.sampled_from([0.5, -1.25, 2.75, 1e-3]))
    return st.recursive(
        leaf, lambda x: st.one_of(
            st.lists(x, max_size=3),
            st.dictionaries(st.sampled_from(["p", "q", "r"]), x, max_size=2)),
        max_leaves=4)


KINDS = {
    "cat": ("box", "dagger"),
    "monoidal": ("box", "dagger", "swap"),
    "rigid": ("box", "dagger", "swap", "cup", "cap"),
    "tensor": ("box", "dagger", "swap", "spider"),
}
CLASS_NAMES = {"tensor": [2, 3]}
WORD_CLASSES = {"monoidal", "rigid", "biclosed"}
LAYER_FN = {}  # cls -> composite strategy fn(scan, max_width, **kw)


@st.composite
def diagrams(draw, cls="monoidal", max_boxes=6, max_width=5, dom=None,
             kinds=None, names=NAMES, zmax=1, pool=None, min_boxes=0,
             max_arity=3, data=False, max_dom=3, connected=False):
    kinds = KINDS.get(cls, ()) if kinds is None else kinds
    if names is NAMES:
        names = CLASS_NAMES.get(cls, NAMES)
    one = cls == "cat"
    if one:
        max_arity = 1
    if dom is None:
        dom = draw(types(cls, 1 if one else 0,
                         1 if one else min(max_dom, max_width), names, zmax))
    pool = [] if pool is None else pool
    scan = [_o(x) for x in dom]
    layers = []
    n = draw(st.integers(min_boxes, max_boxes))
    for i in range(n):
        if connected and i > 0 and not scan:
            break
        if cls in LAYER_FN:
            b, off = draw(LAYER_FN[cls](scan, max_width))
        else:
            b, off = draw(layer(
                cls, scan, pool, kinds, max_width, names, zmax, max_arity,
                data,
                min_dom=1 if one or connected and i > 0 else 0,
                min_cod=1 if one or connected and i < n - 1 else 0))
        from harness.specs import bdom, bcod
        layers.append([b, off])
        scan = scan[:off] + bcod(b) + scan[off + len(bdom(b)):]
    return {"cls": cls, "dom": [_o(x) for x in dom], "layers": layers}


@st.composite
def closing(draw, cls, scan, cod, names=NAMES):
    """ Layers from `scan` to `cod` (used to force a codomain). """
    scan, cod = [_o(x) for x in scan], [_o(x) for x in cod]
    if cls == "circuit":
        layers = [[{"k": "g", "g": "Discard", "a": [t]}, 0] for t, _ in scan]
        for i, (t, _) in enumerate(cod):
            layers.append([{"k": "g", "g": "Ket" if t == "qubit" else "Bits",
                            "a": [0]}, i])
        return layers
    if cls == "zx":
        return [[{"k": "zx", "g": "Z", "n": [len(scan), len(cod)], "ph": 0},
                 0]]
    if cls == "cartesian":
        return [[{"k": "fn", "name": "close", "n": [len(scan), len(cod)]}, 0]]
    if cls == "biclosed":
        return [[{"k": "box", "name": "close", "dom": scan, "cod": cod,
                  "dag": False}, 0]]
    return [[{"k": "box", "name": draw(st.sampled_from(BOXNAMES)),
              "dom": scan, "cod": cod, "dag": False}, 0]]


@st.composite
def diagrams_to(draw, cls, dom, cod, **kwargs):
    """ Diagram dom -> cod: a random diagram from dom, then, if needed,
    closing layers. """
    from harness.specs import spec_cod
    spec = draw(diagrams(cls, dom=dom, **kwargs))
    end = spec_cod(spec)
    if end != [_o(x) for x in cod]:
        spec["layers"] += draw(closing(cls, end, cod))
    return spec


@st.composite
def interpretations(draw, spec_list, max_dim=3, wide_dim=2, budget=60000):
    """ dims per name + Gaussian-integer arrays per generator of the specs.
    Returns {"dims": {name: d}, "ar": [{"name","dom","cod","vals"}]} """
    from harness.specs import scans
    names, gens = [], {}
    width = 0
    for spec in spec_list:
        for scan in scans(spec):
            width = max(width, len(scan) + len(spec["dom"]))
            for n, _ in scan:
                if n not in names:
                    names.append(n)
        for b, _ in spec["layers"]:
            _collect(b, gens, names)
    hi = max_dim if width <= 7 else wide_dim
    if width > 12:
        hi = 1
    dims = {n: draw(st.integers(1, hi)) for n in names}
    ar = []
    for (name, dom, cod) in gens:
        size = 1
        for n, _ in dom + cod:
            size *= dims[n]
        vals = draw(st.lists(st.integers(-2, 2), min_size=2 * size,
                             max_size=2 * size))
        ar.append({"name": name, "dom": [_o(x) for x in dom],
                   "cod": [_o(x) for x in cod], "vals": vals})
    return {"dims": dims, "ar": ar}


def _collect(b, gens, names):
    for key in ("l", "r", "t"):
        if key in b and b[key][0] not in names:
            names.append(b[key][0])
    if b["k"] != "box":
        return
    dom, cod = (b["cod"], b["dom"]) if b.get("dag") else (b["dom"], b["cod"])
    for n, _ in dom + cod:
        if n not in names:
            names.append(n)
    key = (b["name"], tuple(map(tuple, dom)), tuple(map(tuple, cod)))
    gens.setdefault(key, None)


def fake_snake(spec, p, left, a, obstruction=None):
    """ Append to a rigid spec a cap and a cup in zig-zag position on wire p
    of its codomain whose outer legs do NOT have the same type: with u the
    type of the wire, t = u shifted by a and x = u shifted by 2a,

        right-handed: Cap(x, t) @ Id(u) >> Id(x) @ Cup(t, u)    u -> x
        left-handed:  Id(u) @ Cap(t, x) >> Cup(u, t) @ Id(x)    u -> x

    Both are well-typed (the library takes cups and caps of either hand) and
    neither is an instance of the snake equation: normalisation has to leave
    them alone.  obstruction: None, "scalar", "state" (a state on the far
    right, between the cap and the cup) or "endo" (a box on the wire to the
    left, if any).  Returns None when wire p does not exist. """
    from harness import specs
    cod = specs.spec_cod(spec)
    if not 0 <= p < len(cod):
        return None
    n, z = cod[p]
    u, t, x = [n, z], [n, z + a], [n, z + 2 * a]
    layers = [list(l) for l in spec["layers"]]
    if left:
        layers.append([{"k": "cap", "l": t, "r": x}, p + 1])
    else:
        layers.append([{"k": "cap", "l": x, "r": t}, p])
    if obstruction == "scalar":
        layers.append([{"k": "box", "name": "s", "dom": [], "cod": [],
                        "dag": False}, p])
    elif obstruction == "state":
        layers.append([{"k": "box", "name": "w", "dom": [], "cod": [["s", 0]],
                        "dag": False}, len(cod) + 2])
    elif obstruction == "endo" and p > 0:
        layers.append([{"k": "box", "name": "e", "dom": [cod[p - 1]],
                        "cod": [cod[p - 1]], "dag": False}, p - 1])
    if left:
        layers.append([{"k": "cup", "l": u, "r": t}, p])
    else:
        layers.append([{"k": "cup", "l": t, "r": u}, p + 1])
    out = dict(spec, layers=layers)
    specs.scans(out)
    return out
