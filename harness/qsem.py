"""Reference semantics for circuits, written from the textbook definitions.

O5  gate matrices from tket            tk_unitary(name, phase)
    pure reference evaluation          pure_eval(spec)   (uses O4)
O6  classical-quantum reference        cq_eval(spec) -> ndarray in the
    library's documented layout (classical, quantum-conj, quantum) for dom and
    for cod
O8  standard ZX interpretation         zx_eval(spec)

Layout convention (DESIGN.md C11): the array of a gate, reshaped to 2^n x 2^n
with the leftmost qubit most significant, IS tket's unitary; a diagram's matrix
(rows = domain) is the product of its layers' matrices in diagram order.
"""
import cmath
import math

import numpy as np

from harness import specs, qspec
from harness.core import HarnessError

DIMS = {"qubit": 2, "bit": 2, 1: 2}


def tk_unitary(name, phase=None):
    """ O5: tket's own unitary for the identically named operation; tket
    angles are half-turns, discopy phases full turns. """
    from pytket.circuit import Op, OpType
    optype = getattr(OpType, name)
    params = [] if phase is None else [2 * float(phase)]
    return np.asarray(Op.create(optype, params).get_unitary())


def gate_matrix(b):
    """ 2^n x 2^n reference matrix of a unitary gate spec. """
    g, a = b["g"], b.get("a", [])
    if g in qspec.ONE_QUBIT + qspec.TWO_QUBIT:
        U = tk_unitary(g)
        return U.conj().T if b.get("dag") else U
    if g in qspec.ROT1 + qspec.ROT2:
        return tk_unitary(g, a[0])
    if g == "Q":
        U = qspec.custom_matrix(*a)
        return U.conj().T if b.get("dag") else U
    if g == "C":
        inner = gate_matrix(a[0])
        out = np.eye(4, dtype=complex)
        out[2:, 2:] = inner
        return out
    raise HarnessError(g)


def basis(bits, dim=2):
    out = np.zeros((dim,) * len(bits) or (), dtype=complex)
    out[tuple(bits)] = 1
    return out


def scalar_value(b):
    g, a = b["g"], b["a"]
    if g == "sqrt":
        z = a[0]
        return cmath.sqrt(complex(*z) if isinstance(z, (list, tuple)) else z)
    return complex(a[0], a[1])


def pure_tensor(b):
    """ Tensor with axes dom + cod of a pure circuit box. """
    if b["k"] == "swap":
        return specs.swap_tensor(2, 2)
    g, a = b["g"], b.get("a", [])
    nd, nc = len(specs.bdom(b)), len(specs.bcod(b))
    if g in ("Ket", "Bra", "Bits"):
        return basis(a)
    if g in ("scalar", "sqrt"):
        return np.array(scalar_value(b))
    if g in ("Copy", "Match"):
        return specs.delta(3, 2).astype(complex)
    if g == "CGate":
        arr = np.array(a[3], dtype=complex).reshape((2,) * (a[1] + a[2]))
        if b.get("dag"):
            n = a[1]
            arr = np.conj(np.moveaxis(arr, list(range(n)),
                                      list(range(arr.ndim - n, arr.ndim))))
        return arr
    return gate_matrix(b).reshape((2,) * (nd + nc))


def pure_eval(spec):
    """ Reference pure evaluation: ndarray with axes dom + cod. """
    return specs.ref_eval(spec, DIMS, None, pure_tensor)


def pure_matrix(spec):
    n = len(spec["dom"])
    return pure_eval(spec).reshape(2 ** n, -1)


# ------------------------------------------------------------------ O6

def group(wire):
    return 2 if wire[0] == "qubit" else 1


def axes(wires):
    return sum(group(w) for w in wires)


def double(A, nd, nc):
    """ Pure tensor A (axes dom + cod) -> doubled tensor with axes
    (i_1, i_1', ..., o_1, o_1', ...): D = A (x) conj(A), interleaved. """
    n = nd + nc
    D = np.tensordot(A, np.conj(A), 0)  # axes: A's n, then conj's n
    order = []
    for k in range(n):
        order += [k, n + k]
    return np.transpose(D, order)


def cq_tensor(b):
    """ Doubled tensor of a circuit box: axes = expanded dom + expanded cod,
    each qubit wire contributing (plain, conj) and each bit wire one axis. """
    if b["k"] == "swap":
        l, r = b["l"], b["r"]
        gl, gr = group(l), group(r)
        size = 2 ** (gl + gr)
        T = np.eye(size, dtype=complex).reshape((2,) * (2 * (gl + gr)))
        n = gl + gr
        # output axes: r's group first, then l's
        out_order = list(range(n + gl, n + gl + gr)) + list(range(n, n + gl))
        return np.transpose(T, list(range(n)) + out_order)
    g, a = b["g"], b.get("a", [])
    dom, cod = specs.bdom(b), specs.bcod(b)
    if g in ("scalar", "sqrt"):
        s = scalar_value(b)
        return np.array(s if b.get("mixed") else abs(s) ** 2, dtype=complex)
    if g in ("Bits", "Copy", "Match", "CGate"):
        return pure_tensor(b)
    if g in ("Ket", "Bra"):
        return double(basis(a), len(dom), len(cod))
    if g in ("Measure", "Encode"):
        n, destructive, override = a
        # Measure on one qubit: q -> [q] c ; (with c_in discarded if override)
        one = np.zeros((2, 2) + ((2, 2) if not destructive else ()) + (2,),
                       dtype=complex)
        for i in range(2):
            one[(i, i) + ((i, i) if not destructive else ()) + (i,)] = 1
        # n qubits: tensor power with wires grouped as q^n [c_in^n] -> [q^n] c^n
        T = np.array(1, dtype=complex)
        for _ in range(n):
            T = np.tensordot(T, one, 0)
        k = one.ndim
        in_axes = [[j * k, j * k + 1] for j in range(n)]
        mid = [[j * k + 2, j * k + 3] for j in range(n)] if not destructive\
            else []
        out = [[j * k + k - 1] for j in range(n)]
        order = sum(in_axes, []) + sum(mid, []) + sum(out, [])
        T = np.transpose(T, order)
        if override:
            ones = np.ones((2,) * n, dtype=complex)
            T = np.tensordot(T, ones, 0)
            # move the discarded input bits right after the input qubits
            nin = 2 * n
            T = np.moveaxis(T, list(range(T.ndim - n, T.ndim)),
                            list(range(nin, nin + n)))
        if g == "Encode":
            n_in = axes(cod)   # Measure's dom is Encode's cod
            T = np.conj(np.moveaxis(T, list(range(n_in)),
                                    list(range(T.ndim - n_in, T.ndim))))
        return T
    if g in ("Discard", "MixedState"):
        T = np.array(1, dtype=complex)
        for t in a:
            T = np.tensordot(T, np.eye(2, dtype=complex) if t == "qubit"
                             else np.ones(2, dtype=complex), 0)
        return T
    A = gate_matrix(b).reshape((2,) * (len(dom) + len(cod)))
    return double(A, len(dom), len(cod))


def cq_eval_raw(spec):
    """ Tensor with axes expanded(dom) + expanded(cod), qubits as
    (plain, conj) pairs in wire order. """
    dom = spec["dom"]
    nd = axes(dom)
    T = np.eye(2 ** nd, dtype=complex).reshape((2,) * (2 * nd))
    scan = [list(w) for w in dom]
    for b, off in spec["layers"]:
        B = cq_tensor(b)
        bd, bc = specs.bdom(b), specs.bcod(b)
        T = specs.apply_tensor(T, nd, axes(scan[:off]), B, axes(bd))
        scan = scan[:off] + bc + scan[off + len(bd):]
    return T


def library_layout(wires, start):
    """ Axis indices (into the raw layout, starting at `start`) in the
    library's order: classical, quantum-conj, quantum. """
    classical, plain, conj = [], [], []
    k = start
    for w in wires:
        if w[0] == "qubit":
            plain.append(k)
            conj.append(k + 1)
            k += 2
        else:
            classical.append(k)
            k += 1
    return classical + conj + plain


def cq_eval(spec):
    """ O6 in the layout of CQMap.array: dom (classical, conj, plain) then
    cod (classical, conj, plain). """
    raw = cq_eval_raw(spec)
    dom, cod = spec["dom"], specs.spec_cod(spec)
    order = library_layout(dom, 0) + library_layout(cod, axes(dom))
    return np.transpose(raw, order)


def distribution(spec):
    """ For a circuit with empty domain and only bits as codomain: the
    tensor over the output bits (unnormalised probabilities). """
    return cq_eval(spec)


# ------------------------------------------------------------------ O8 (ZX)

def zx_tensor(b):
    if b["k"] == "swap":
        return specs.swap_tensor(2, 2)
    g = b["g"]
    if g == "H":
        return np.array([[1, 1], [1, -1]], dtype=complex) / math.sqrt(2)
    if g == "scalar":
        v = b["ph"]
        return np.array(complex(v[0], v[1]) if not isinstance(v, str)
                        else complex(qspec.num(v)))
    n = sum(b["n"])
    phase = complex(qspec.num(b.get("ph", 0)))
    T = np.zeros((2,) * n, dtype=complex) if n else np.array(0j)
    if n:
        T[(0,) * n] = 1
        T[(1,) * n] = cmath.exp(2j * math.pi * phase)
    else:
        T = np.array(1 + cmath.exp(2j * math.pi * phase))
    if g == "Z":
        return T
    if g == "X":
        H = np.array([[1, 1], [1, -1]], dtype=complex) / math.sqrt(2)
        for k in range(n):
            T = np.moveaxis(np.tensordot(T, H, ([k], [0])), -1, k)
        return T
    raise HarnessError(g)


def zx_eval(spec):
    return specs.ref_eval(spec, DIMS, None, zx_tensor)


def close(a, b, atol=1e-9, rtol=1e-9):
    a, b = np.asarray(a, dtype=complex), np.asarray(b, dtype=complex)
    return a.size == b.size and bool(np.allclose(
        a.reshape(b.shape), b, atol=atol, rtol=rtol))
