"""C15 Diagrammatic gradients evaluate to the gradient of the evaluation."""
import numpy as np
from hypothesis import strategies as st

from harness import core, specs, gen, common, classes, qspec, qsem, findings
from harness.core import Facet, Violation, require
from harness.props import c14

RULE = ("circuits over Rx/Ry/Rz/CRz/CRx/CU1/scalars whose phases are affine "
        "and non-linear expressions of 1-3 real symbols occurring several "
        "times, followed or not by measurements, with mixed=False and the "
        "default; tensor diagrams with symbolic boxes and bubbles; jacobians; "
        "non-trivial = the symbol occurs in >= 2 boxes, at least once "
        "non-linearly or with a coefficient != 1")
TOL = dict(atol=1e-7, rtol=1e-7)
EXPRS = ["u", "v", "2*u", "u + 0.25", "u*v", "u**2", "u/2 + v", "-u",
         "u + v + 0.5", "3*u - 1", "u**2 + 3*u", "v*(2*u + v)", "u**3 - u",
         "(u + 1)*(u - v)"]
POINTS = [0.3, -0.7, 1.25, 0.45, -0.2]


def same(got, ref, label, detail, tol=TOL):
    got, ref = np.asarray(got, dtype=complex), np.asarray(ref, dtype=complex)
    require(got.size == ref.size and np.allclose(
        got.reshape(ref.shape), ref, **tol), "C15:" + label,
        lambda: "{}: got {} expected {}".format(
            detail, np.round(got.flatten(), 6).tolist(),
            np.round(ref.flatten(), 6).tolist())[:1500])


def numeric_derivative(func, env, var, h=1e-4):
    """ Fourth-order central difference of an array-valued function of the
    assignment `env` (independent reference, tolerance 1e-5). """
    def at(delta):
        return np.asarray(func(dict(env, **{var: env[var] + delta})),
                          dtype=complex)
    return (-at(2 * h) + 8 * at(h) - 8 * at(-h) + at(-2 * h)) / (12 * h)


def symbolic_derivative(arr, var, env):
    import sympy
    out = []
    for e in np.asarray(arr, dtype=object).flatten():
        e = sympy.sympify(e)
        try:
            out.append(complex(sympy.N(sympy.diff(e, c14.sym(var)).subs(
                {c14.sym(k): v for k, v in env.items()}))))
        except TypeError:
            raise Violation("C15:evaluation-not-differentiable",
                            "entry {!r}".format(e)[:400])
    return np.array(out)


@st.composite
def circuit_cases(draw, tier):
    measured = draw(st.booleans())
    gates = ["rot", "rot", "rot", "named", "scalar", "sqrt"]
    spec = draw(c14.symbolic_circuits(
        tier, allow_mixed=False, exprs=EXPRS, max_boxes=4,
        gates=gates + ["rot2", "rot2", "cx"]))
    # scalars with real symbols only
    layers = []
    for b, off in spec["layers"]:
        if b.get("g") == "scalar":
            b = dict(b, a=[draw(st.sampled_from(
                ["u", "u**2", "2*u + 1", "u*v"])), 0])
        elif b.get("g") == "sqrt":   # positive radicands at every POINT
            b = dict(b, a=[draw(st.sampled_from(
                ["u + 2", "u**2 + 1", "u*v + 3", "4"]))])
        layers.append([b, off])
    spec = dict(spec, layers=layers)
    if measured:
        cod = specs.spec_cod(spec)
        k = draw(st.integers(1, len(cod)))
        spec["layers"].append([{"k": "g", "g": "Measure",
                                "a": [k, True, False]}, 0])
    symbols = sorted(c14.spec_symbols(spec)) or ["u"]
    return {"d": spec, "var": draw(st.sampled_from(symbols + ["v"])),
            "mixed": measured or draw(st.booleans()),
            "env": {s: draw(st.sampled_from(POINTS))
                    for s in ["u", "v", "x", "y", "z"]}}


def occurrences(spec, var):
    return [e for b, _ in spec["layers"] for e in c14.box_exprs(b)
            if var in c14.expr_symbols(e)]


def check_circuit(case):
    spec, var, env, mixed = case["d"], case["var"], case["env"], case["mixed"]
    d = specs.build(spec)
    x = c14.sym(var)
    try:
        g = d.grad(x) if mixed else d.grad(x, mixed=False)
    except NotImplementedError:
        require(mixed and any(b.get("g") in qspec.ROT2
                              for b, _ in spec["layers"]),
                "C15:NotImplementedError", str(d))
        return dict(nt=False, labels=["NotImplementedError"])
    occ = occurrences(spec, var)
    if not occ:
        require(len(g.terms) == 0 and specs.tkey(g.dom) == specs.tkey(d.dom)
                and specs.tkey(g.cod) == specs.tkey(d.cod),
                "C15:gradient-of-constant-not-empty",
                lambda: "{}.grad({}) = {}".format(d, var, g))
        return dict(nt=False, labels=["independent"])
    specs.well_typed(g, "gradient")
    value = d.eval(mixed=mixed)
    ref = symbolic_derivative(value.array, var, env)
    got = g.eval(mixed=mixed) if mixed else g.eval()
    got = c14.to_complex(np.asarray(got.array, dtype=object), env)
    same(got, ref, "gradient-vs-derivative-of-evaluation",
         "{} d/d{} at {} (mixed={})".format(common.show(d), var, env, mixed))
    # the formal sum evaluated at the parameter values: substitute, then
    # evaluate
    pairs = [(c14.sym(k), v) for k, v in env.items()]
    at = g.subs(pairs)
    got_at = at.eval(mixed=mixed) if mixed else at.eval()
    same(c14.to_complex(lib_array(got_at, ref), {}), ref,
         "gradient-substituted-then-evaluated",
         "{} d/d{} at {} (mixed={})".format(common.show(d), var, env, mixed))
    # independent numeric reference: central difference of O6 / O4
    evaluate = (lambda e: qsem.cq_eval(c14.subst_spec(spec, e))) if mixed\
        else (lambda e: qsem.pure_eval(c14.subst_spec(spec, e)))
    same(got, numeric_derivative(evaluate, env, var),
         "gradient-vs-numeric-reference", common.show(d),
         dict(atol=1e-5, rtol=1e-5))
    # a gradient is a function of the circuit, the symbol and the flag, not
    # of the gradients taken before: the other kind of gradient of the same
    # object, then this kind again, against those of a fresh copy
    def grad_of(circuit, flag):
        try:
            return circuit.grad(x) if flag else circuit.grad(x, mixed=False)
        except NotImplementedError:
            return NotImplementedError
    fresh = specs.build(spec)
    for flag in (not mixed, mixed):
        second, first = grad_of(d, flag), grad_of(fresh, flag)
        require(second == first and type(second) is type(first),
                "C15:gradient-depends-on-earlier-gradients",
                lambda: "{} d/d{} (mixed={}) after another gradient: {} "
                "instead of {}".format(common.show(d), var, flag, second,
                                       first)[:1200])
    nonlinear = any(e not in ("u", "v") for e in occ)
    return dict(nt=len(occ) >= 2 and nonlinear, labels=[
        "mixed" if mixed else "pure", "occ%d" % min(len(occ), 4)],
        show="d/d{} {}".format(var, common.show(d, 200)))


ENTRIES = ["u", "v", "2*u", "u + 0.25", "u*v", "u**2", "u/2 + v", "-u"]


@st.composite
def symbolic_boxes(draw, scan, k, max_cod=2):
    nd = draw(st.integers(0, min(1, len(scan))))
    off = draw(st.integers(0, len(scan) - nd))
    nc = draw(st.integers(0, max_cod if len(scan) < 3 else 0))
    entry = st.one_of(st.sampled_from(ENTRIES), st.integers(-2, 2),
                      st.sampled_from(ENTRIES))
    svals = [draw(entry) for _ in range(2 ** (nd + nc))]
    return {"k": "box", "name": "t%d" % k, "dom": [[2, 0]] * nd,
            "cod": [[2, 0]] * nc, "dag": False, "svals": svals}, off


@st.composite
def tensor_cases(draw, tier):
    dom = draw(st.sampled_from([[], [], [[2, 0]]]))
    scan, layers = [list(w) for w in dom], []
    for k in range(draw(st.integers(1, 2))):
        b, off = draw(symbolic_boxes(scan, k))
        layers.append([b, off])
        scan = scan[:off] + b["cod"] + scan[off + len(b["dom"]):]
        if draw(st.integers(0, 2)) == 0 and len(scan) - len(b["cod"]) + len(
                b["dom"]) <= 3:
            # the same box again, daggered
            layers.append([dict(b, dom=b["cod"], cod=b["dom"], dag=True),
                           off])
            scan = scan[:off] + b["dom"] + scan[off + len(b["cod"]):]
    inner = {"cls": "tensor", "dom": dom, "layers": layers}
    bubbled = len(dom) <= 1 and len(scan) <= 1 and draw(st.booleans())
    if bubbled:
        layers = [[{"k": "bubble", "inside": inner, "f": draw(
            st.sampled_from(["square", "double", "plus1", "cube"]))}, 0]]
    layers = list(layers)
    for k in range(draw(st.integers(0, 2))):
        b, off = draw(symbolic_boxes(scan, 10 + k))
        layers.append([b, off])
        scan = scan[:off] + b["cod"] + scan[off + len(b["dom"]):]
    spec = {"cls": "tensor", "dom": dom, "layers": layers}
    symbols = sorted(c14.spec_symbols(spec)) or ["u"]
    return {"d": spec, "var": draw(st.sampled_from(symbols + ["v"])),
            "env": {s: draw(st.sampled_from(POINTS))
                    for s in ["u", "v", "x", "y", "z"]},
            "vars": draw(st.lists(st.sampled_from(["u", "v", "x", "y"]),
                                  unique=True, max_size=4))}


def lib_array(value, like):
    """ Array of an evaluation; the empty sum evaluates to the number 0. """
    if hasattr(value, "array"):
        return np.asarray(value.array, dtype=object)
    return np.zeros(np.asarray(like).shape, dtype=object) + value


def check_tensor(case):
    spec, var, env = case["d"], case["var"], case["env"]
    d = c14.build_symbolic_tensor(spec)
    x = c14.sym(var)
    g = d.grad(x)
    value = d.eval()
    symbols = c14.spec_symbols(spec)
    require({str(s) for s in d.free_symbols} == symbols, "C15:free_symbols",
            lambda: "{} reports {} but depends on {}".format(
                d, d.free_symbols, symbols))
    has_bubble = any(b["k"] == "bubble" for b, _ in spec["layers"])
    # jacobian: dom unchanged, cod = Dim(len(variables)) @ cod; the rows
    # follow the order of the variables, absent ones give zero rows
    variables = case["vars"]
    if variables:
        jac = d.jacobian([c14.sym(v) for v in variables])
        nd = 2 ** len(spec["dom"])
        rows = [symbolic_derivative(value.array, v, env).reshape(nd, -1)
                for v in variables]
        expected = np.stack(rows, axis=1) if len(variables) > 1 else rows[0]
        arr = c14.to_complex(lib_array(jac.eval(), expected), env)
        same(arr, expected.reshape(-1), "jacobian", "{} wrt {}".format(
            common.show(d), variables))
        # the other side of the statement: the jacobian (and gradient) of
        # the evaluation itself, a Tensor with symbolic entries
        tjac = value.jacobian([c14.sym(v) for v in variables])
        same(c14.to_complex(lib_array(tjac, expected), env),
             expected.reshape(-1), "jacobian-of-the-evaluation",
             "{} wrt {}".format(common.show(d), variables))
        same(c14.to_complex(lib_array(value.grad(c14.sym(variables[0])),
                                      rows[0]), env), rows[0].reshape(-1),
             "gradient-of-the-evaluation", "{} wrt {}".format(
                 common.show(d), variables[0]))
    if var not in symbols:
        require(len(g.terms) == 0, "C15:gradient-of-constant-not-empty",
                lambda: "{}.grad({}) = {}".format(d, var, g))
        return dict(nt=False, labels=["independent"])
    ref = symbolic_derivative(value.array, var, env)
    got = c14.to_complex(lib_array(g.eval(), value.array), env)
    same(got, ref, "tensor-gradient", "{} d/d{}".format(common.show(d), var))
    occ = sum(1 for b, _ in spec["layers"] for e in c14.box_exprs(b)
              if var in c14.expr_symbols(e))
    return dict(nt=occ >= 2 or has_bubble, labels=[
        "tensor", "vars%d" % len(variables)] + (
            ["bubble"] if has_bubble else []),
        show="d/d{} {}".format(var, common.show(d, 200)))


@st.composite
def jacobian_cases(draw, tier):
    spec = draw(c14.symbolic_circuits(tier, allow_mixed=False, exprs=EXPRS,
                                      max_boxes=3, gates=["rot", "rot",
                                                          "named"]))
    mixed = draw(st.booleans())
    # three variables for pure jacobians only (the index wire is then a
    # Digit(3) next to qubits; mixed ones are too slow symbolically)
    return {"d": spec, "vars": draw(st.lists(st.sampled_from(["u", "v", "x"]),
                                             unique=True,
                                             max_size=2 if mixed else 3)),
            "mixed": mixed,
            "env": {s: draw(st.sampled_from(POINTS))
                    for s in ["u", "v", "x", "y", "z"]}}


def pure_term_eval(term):
    """ Pure tensor of one term of a jacobian (the index wire is a classical
    digit, so Circuit.eval would treat the sum as mixed). """
    from discopy import tensor
    return tensor.Functor(lambda x: x[0].dim, lambda f: f.array)(term)


def check_jacobian(case):
    spec, env, variables = case["d"], case["env"], case["vars"]
    d = specs.build(spec)
    mixed = case.get("mixed", True)
    params = {} if mixed else {"mixed": False}
    try:
        jac = d.jacobian([c14.sym(v) for v in variables], **params)
    except NotImplementedError:
        return dict(nt=False, labels=["NotImplementedError"])
    value = d.eval(mixed=True) if mixed else d.eval()
    if not variables:
        require(len(jac.terms) == 0, "C15:empty-jacobian", str(jac))
        return dict(nt=False, labels=["vars0"])
    depends = [v for v in variables
               if v in {str(s) for s in d.free_symbols}]
    if not depends:
        return dict(nt=False, labels=["independent"])
    specs.well_typed(jac, "jacobian")
    if mixed:
        arr = c14.to_complex(np.asarray(
            jac.eval(mixed=True).array, dtype=object), env)
    else:
        total = None
        for term in jac.terms:
            t = np.asarray(pure_term_eval(term).array, dtype=object)
            total = t if total is None else total + t
        arr = c14.to_complex(total, env)
        if len(variables) != 2:
            # the library's own evaluation of the formal sum: amplitudes (two
            # variables make the index wire a bit, which the library reads
            # as a classical-quantum circuit: not compared)
            from discopy.tensor import Tensor
            from discopy.quantum.cqmap import CQMap
            whole = jac.eval()
            require(isinstance(whole, Tensor)
                    and not isinstance(whole, CQMap),
                    "C15:pure-jacobian-not-amplitudes", lambda: "{} wrt {}: "
                    "{!r}".format(common.show(d), variables, whole)[:600])
            same(c14.to_complex(np.asarray(whole.array, dtype=object), env),
                 arr, "circuit-jacobian-eval", "{} wrt {}".format(
                     common.show(d), variables))
    rows = [symbolic_derivative(value.array, v, env) for v in variables]
    same(arr, np.stack(rows).reshape(-1) if len(variables) > 1 else rows[0],
         "circuit-jacobian", "{} wrt {} (mixed={})".format(
             common.show(d), variables, mixed))
    return dict(nt=len(variables) >= 2, labels=[
        "vars%d" % len(variables), "mixed" if mixed else "pure"],
        show="jacobian {} {}".format(variables, common.show(d, 150)))


def enum_controlled(tier):
    """ Every controlled rotation on every phase expression, pure gradient,
    behind a layer of Hadamards (so that the control is in superposition). """
    for g in qspec.ROT2:
        for expr in EXPRS:
            for var in ("u", "v"):
                for k, point in enumerate(POINTS[:2 if tier == "quick"
                                                 else len(POINTS)]):
                    layers = [[{"k": "g", "g": "Ket", "a": [k % 2, 1]}, 0],
                              [{"k": "g", "g": "H"}, 0],
                              [{"k": "g", "g": "H"}, 1],
                              [{"k": "g", "g": g, "a": [expr]}, 0]]
                    yield {"d": {"cls": "circuit", "dom": [],
                                 "layers": layers},
                           "var": var, "mixed": False,
                           "env": {s: point + 0.1 * i for i, s in enumerate(
                               ["u", "v", "x", "y", "z"])}}


core.register("C15", [
    Facet("circuits", circuit_cases, check_circuit, n_quick=280,
          shards_quick=8, rule=RULE),
    Facet("controlled", None, check_circuit, enum=enum_controlled,
          shards_quick=8, rule="pure gradients of CRz, CRx and CU1 on every "
          "phase expression of the generator (affine and not), w.r.t. each "
          "symbol"),
    Facet("tensors", tensor_cases, check_tensor, n_quick=800,
          shards_quick=4, rule="tensor diagrams with symbolic boxes, "
          "optionally inside a polynomial bubble; gradient and jacobian vs "
          "symbolic differentiation of the evaluation"),
    Facet("jacobians", jacobian_cases, check_jacobian, n_quick=120,
          shards_quick=4, rule="circuit jacobians over 0-3 variables out of three (three for pure "
          "jacobians only), one of which never occurs"),
], rule=RULE, assumptions=[
    "symbols are real; the derivative of the library's own symbolic "
    "evaluation (sympy, exact) is the primary reference (tolerance 1e-7), a "
    "fourth-order central difference of the independent reference "
    "evaluators O4/O6 the second one (tolerance 1e-5)",
    "ZX diagrams are outside the statement (tensor diagrams and circuits)",
    "NotImplementedError for the default gradient of controlled rotations is "
    "a counted refusal"])
