"""C10 Swaps and permutations realise exactly the requested wire permutation."""
import itertools

from hypothesis import strategies as st

from harness import core, specs, gen, common, classes, qspec  # noqa: F401
from harness.core import Facet, Violation, require

CLASSES = ["monoidal", "rigid", "tensor", "circuit", "zx"]
RULE = ("all permutations of length <= 6 (quick: <= 5) and all block swaps "
        "with |l|, |r| <= 4 in five classes, with all-distinct and repeated "
        "wire types, plus random cases up to length 8; non-trivial = a "
        "permutation of length >= 3 that is not an involution, or a swap "
        "with both sides of length >= 2")


def wires(cls, n, distinct):
    """ A type spec with n wires, all distinct when the class allows. """
    if cls in ("monoidal", "rigid"):
        return [["w%d" % i if distinct else "w%d" % (i % 2),
                 (i % 3 - 1) if cls == "rigid" else 0] for i in range(n)]
    if cls == "tensor":
        return [[2 + (i % 3 if distinct else 0), 0] for i in range(n)]
    if cls == "circuit":
        return [["qubit" if (i % 2 or not distinct) else "bit", 0]
                for i in range(n)]
    return [[1, 0]] * n


def track(d, n, cls):
    """ Follow input positions through a diagram that must consist of adjacent
    swaps only; returns the list `where` with where[i] = output position of
    input wire i. """
    pos = list(range(n))   # pos[k] = input wire currently at position k
    for bx, off in zip(d.boxes, d.offsets):
        require(type(bx).__name__ == "Swap" and len(bx.dom) == 2
                and len(bx.cod) == 2, "C10:not-a-swap-box",
                lambda: "{} in {}".format(bx, d))
        # ... of the class asked, not of one of its parents (a swap of
        # another class has none of this class's methods: eval, draw, ...)
        require(isinstance(bx, diagram_cls(cls)), "C10:swap-of-another-class",
                lambda: "{!r} in {}.{}: a {}.{}".format(
                    bx, cls, d, type(bx).__module__, type(bx).__name__))
        require(0 <= off <= len(pos) - 2, "C10:swap-offset", str(d))
        pos[off], pos[off + 1] = pos[off + 1], pos[off]
    where = [None] * n
    for k, i in enumerate(pos):
        where[i] = k
    return where


def diagram_cls(cls):
    return specs.mod(cls).Diagram


def check_perm(case):
    cls, perm = case["cls"], list(case["perm"])
    n = len(perm)
    t = wires(cls, n, case["distinct"])
    dom = specs.ty(cls, t)
    D = diagram_cls(cls)
    handed = list(perm)
    d = D.permutation(handed, dom)
    require(handed == perm, "C10:permutation-mutates-its-argument",
            lambda: "{} became {}".format(perm, handed))
    again = D.permutation(handed, dom)
    require(again == d and specs.dkey(again) == specs.dkey(d),
            "C10:permutation-mutates-its-argument", str(d))
    specs.well_typed(d, "permutation")
    require(specs.tkey(d.dom) == specs.skey_ty(t), "C10:dom", str(d))
    where = track(d, n, cls)
    require(where == perm, "C10:permutation-not-realised",
            lambda: "permutation({}) sends input i to {}".format(perm, where))
    exp_cod = [None] * n
    for i, p in enumerate(perm):
        exp_cod[p] = t[i]
    require(specs.tkey(d.cod) == specs.skey_ty(exp_cod), "C10:cod",
            lambda: "permutation({}, {}) has cod {}".format(perm, dom, d.cod))
    if case["default_dom"] and cls in ("monoidal", "rigid", "circuit", "zx"):
        d0 = D.permutation(list(perm))
        require(len(d0.dom) == n and track(d0, n, cls) == perm,
                "C10:default-domain", str(d0))
    # permute(*perm) == self >> permutation(perm, self.cod) as documented
    ident = specs.ident(cls, t)
    p = ident.permute(*perm)
    require(p == d and specs.dkey(p) == specs.dkey(d), "C10:permute",
            lambda: "{} vs {}".format(p, d))
    nt = n >= 3 and any(perm[perm[i]] != i for i in range(n))
    return dict(nt=nt, labels=[cls, "n%d" % n], show="{}.permutation({}, {})"
                .format(cls, perm, dom))


def check_swap(case):
    cls, nl, nr = case["cls"], case["nl"], case["nr"]
    t = wires(cls, nl + nr, case["distinct"])
    left, right = t[:nl], t[nl:]
    D = diagram_cls(cls)
    d = D.swap(specs.ty(cls, left), specs.ty(cls, right))
    specs.well_typed(d, "swap")
    require(specs.tkey(d.dom) == specs.skey_ty(left + right)
            and specs.tkey(d.cod) == specs.skey_ty(right + left),
            "C10:swap-types", lambda: "{} : {} -> {}".format(d, d.dom, d.cod))
    where = track(d, nl + nr, cls)
    expected = [nr + k for k in range(nl)] + list(range(nr))
    require(where == expected, "C10:swap-not-realised",
            lambda: "swap({}, {}) sends input i to {}".format(
                left, right, where))
    return dict(nt=nl >= 2 and nr >= 2, labels=[cls, "%dx%d" % (nl, nr)],
                show="{}.swap({}, {})".format(cls, left, right))


def check_refusals(case):
    cls = case["cls"]
    D = diagram_cls(cls)
    n = case["n"]
    t = specs.ty(cls, wires(cls, n, True))
    bad = list(case["bad"])
    is_perm = sorted(bad) == list(range(len(bad)))
    if not is_perm:
        common.expect_raises(lambda: D.permutation(bad, t), (Exception,),
                             "C10:non-permutation-accepted", str(bad))
        if len(bad) == n:
            common.expect_raises(
                lambda: specs.ident(cls, wires(cls, n, True)).permute(*bad),
                (Exception,), "C10:non-permutation-accepted", str(bad))
    perm = list(range(n + 1))
    common.expect_raises(lambda: D.permutation(perm, t), (Exception,),
                         "C10:length-mismatch-accepted",
                         "{} on {}".format(perm, t))
    # an explicitly given empty domain is a domain of length 0
    empty = specs.ty(cls, [])
    common.expect_raises(lambda: D.permutation(list(range(n)), empty),
                         (Exception,), "C10:length-mismatch-accepted",
                         "{} on the empty type".format(list(range(n))))
    d0 = D.permutation([], empty)
    require(len(d0.dom) == 0 and len(d0.cod) == 0 and not d0.boxes,
            "C10:empty-permutation", lambda: str(d0))
    if n >= 2:
        common.expect_raises(lambda: D.permutation(list(range(n - 1)), t),
                             (Exception,), "C10:length-mismatch-accepted",
                             "short permutation on {}".format(t))
    if cls in ("monoidal", "rigid") and n >= 2:
        m = specs.mod(cls)
        common.expect_raises(lambda: m.Swap(t, t[:1]), (Exception,),
                             "C10:box-swap-of-composite", str(t))
    return dict(nt=True, labels=[cls, "refusal"], show=str(bad))


def enum_cases(tier):
    top = 6 if tier == "thorough" else 5
    for cls in CLASSES:
        for n in range(top + 1):
            for perm in itertools.permutations(range(n)):
                for distinct in (True, False):
                    yield {"kind": "perm", "cls": cls, "perm": list(perm),
                           "distinct": distinct, "default_dom": n <= 3}
        for nl in range(5):
            for nr in range(5):
                for distinct in (True, False):
                    yield {"kind": "swap", "cls": cls, "nl": nl, "nr": nr,
                           "distinct": distinct}


def check_enum(case):
    return check_perm(case) if case["kind"] == "perm" else check_swap(case)


@st.composite
def random_cases(draw, tier):
    cls = draw(st.sampled_from(CLASSES))
    kind = draw(st.sampled_from(["perm", "perm", "swap", "refusal"]))
    if kind == "perm":
        n = draw(st.integers(5, 8))
        return {"kind": kind, "cls": cls,
                "perm": draw(st.permutations(list(range(n)))),
                "distinct": draw(st.booleans()), "default_dom": False}
    if kind == "swap":
        return {"kind": kind, "cls": cls, "nl": draw(st.integers(0, 6)),
                "nr": draw(st.integers(0, 6)), "distinct": draw(st.booleans())}
    n = draw(st.integers(1, 5))
    return {"kind": kind, "cls": cls, "n": n, "bad": draw(st.lists(
        st.integers(-1, n + 1), min_size=max(0, n - 1), max_size=n + 1))}


def check_random(case):
    if case["kind"] == "refusal":
        return check_refusals(case)
    return check_enum(case)


@st.composite
def tensor_swap_cases(draw, tier):
    dims = st.lists(st.integers(2, 3), max_size=3)
    return {"l": draw(dims), "r": draw(dims)}


def check_tensor_swap(case):
    """ The concrete Tensor.swap (what tensor functors evaluate swaps to) is
    the 0/1 array of the block swap, and agrees with the evaluation of the
    diagram made of adjacent swaps. """
    import numpy as np
    from discopy.tensor import Tensor, Dim, Diagram
    l, r = case["l"], case["r"]
    t = Tensor.swap(Dim(*l), Dim(*r))
    require(list(t.dom) == l + r and list(t.cod) == r + l, "C10:tensor-swap-"
            "types", lambda: "{} -> {}".format(t.dom, t.cod))
    shape = tuple(l + r + r + l)
    ref = np.zeros(shape or (), dtype=complex)
    for idx in itertools.product(*[range(n) for n in l + r]):
        a, b = idx[:len(l)], idx[len(l):]
        ref[tuple(idx) + tuple(b) + tuple(a)] = 1
    got = np.asarray(t.array, dtype=complex).reshape(ref.shape)
    require(np.array_equal(got, ref), "C10:tensor-swap-not-realised",
            lambda: "Tensor.swap(Dim{}, Dim{})".format(tuple(l), tuple(r)))
    d = Diagram.swap(Dim(*l), Dim(*r))
    ev = np.asarray(d.eval().array, dtype=complex).reshape(ref.shape)
    require(np.array_equal(ev, ref), "C10:tensor-diagram-swap-eval",
            lambda: "Diagram.swap(Dim{}, Dim{}).eval()".format(
                tuple(l), tuple(r)))
    return dict(nt=len(l) != len(r) and l and r, labels=[
        "%dx%d" % (len(l), len(r))], show="Tensor.swap({}, {})".format(l, r))


KINDS = ["bit", "digit3", "qubit", "qudit3"]


def enum_cq_swaps(tier):
    types = [[]] + [[k] for k in KINDS] + [[a, b] for a in KINDS
                                            for b in KINDS]
    for l in types:
        for r in types:
            if tier == "thorough" or len(l) + len(r) <= 3:
                yield {"l": l, "r": r}


def check_cq_swap(case):
    """ Swaps of circuit types with classical and quantum wires of dimension
    2 and 3, evaluated as classical-quantum maps: domain, permuted codomain
    and the 0/1 array that moves every wire (quantum ones twice over). """
    import numpy as np
    from discopy.quantum import cqmap
    from discopy.quantum.circuit import Circuit, Ty, Digit, Qudit, bit, qubit
    wire = {"bit": bit, "qubit": qubit, "digit3": Ty(Digit(3)),
            "qudit3": Ty(Qudit(3))}
    dim = {"bit": 2, "qubit": 2, "digit3": 3, "qudit3": 3}

    def ty(names):
        return Ty().tensor(*[wire[n] for n in names]) if names else Ty()
    l, r = case["l"], case["r"]
    d = Circuit.swap(ty(l), ty(r))
    F = cqmap.Functor()
    out = d.eval(mixed=True)
    what = "Circuit.swap({}, {}).eval(mixed=True)".format(ty(l), ty(r))

    def cq(names):   # (classical dims, quantum dims) of a type
        return ([dim[n] for n in names if n in ("bit", "digit3")],
                [dim[n] for n in names if n in ("qubit", "qudit3")])
    for got, names, end in ((out.dom, l + r, "dom"), (out.cod, r + l, "cod")):
        c, q = cq(names)
        require(list(got.classical) == c and list(got.quantum) == q
                and got == F(ty(names)), "C10:cq-swap-" + end,
                lambda: "{}: {} is {}, expected C({}) @ Q({})".format(
                    what, end, got, c, q))
    (cl, ql), (cr, qr) = cq(l), cq(r)
    axes_in = cl + cr + ql + qr + ql + qr
    axes_out = cr + cl + qr + ql + qr + ql
    ref = np.zeros(tuple(axes_in + axes_out) or (), dtype=complex)
    nc, nq = (len(cl), len(cr)), (len(ql), len(qr))
    for idx in itertools.product(*[range(n) for n in axes_in]):
        c1, c2 = idx[:nc[0]], idx[nc[0]:sum(nc)]
        rest = idx[sum(nc):]
        q1, q2 = rest[:nq[0]], rest[nq[0]:sum(nq)]
        p1, p2 = rest[sum(nq):sum(nq) + nq[0]], rest[sum(nq) + nq[0]:]
        ref[tuple(idx) + c2 + c1 + q2 + q1 + p2 + p1] = 1
    got = np.asarray(out.array, dtype=complex)
    require(got.size == ref.size and np.array_equal(
        got.reshape(ref.shape), ref), "C10:cq-swap-not-realised", what)
    direct = cqmap.CQMap.swap(F(ty(l)), F(ty(r)))
    require(direct.dom == F(ty(l + r)) and direct.cod == F(ty(r + l))
            and np.array_equal(np.asarray(direct.array).reshape(ref.shape),
                               ref), "C10:cqmap-swap",
            lambda: "CQMap.swap({}, {}): {} -> {}".format(
                F(ty(l)), F(ty(r)), direct.dom, direct.cod))
    return dict(nt=len(set(l + r)) >= 2, labels=["%dx%d" % (len(l), len(r))],
                show=what)


core.register("C10", [
    Facet("exhaustive", None, check_enum, enum=enum_cases, shards_quick=8,
          rule=RULE),
    Facet("random", random_cases, check_random, n_quick=1500, shards_quick=2,
          rule="random permutations of length 5-8, swaps up to 6x6, "
          "non-permutations and length mismatches (must be refused)"),
    Facet("tensor_swap", tensor_swap_cases, check_tensor_swap, n_quick=400,
          shards_quick=2, rule="Tensor.swap of blocks of 0-3 wires of "
          "dimension 2-3 against the explicit 0/1 array; non-trivial = blocks "
          "of different non-zero lengths"),
    Facet("cq_swap", None, check_cq_swap, enum=enum_cq_swaps, shards_quick=4,
          rule="Circuit.swap over bits, qubits and wires of dimension 3, "
          "evaluated as a classical-quantum map: types and 0/1 array; "
          "non-trivial = two different kinds of wire"),
], rule=RULE, assumptions=[
    "positions are tracked through the adjacent transpositions read from "
    "boxes/offsets; with all-distinct wire types the codomain also shows the "
    "permutation"])
