"""C04 Functors are functorial (cat, monoidal, rigid functors)."""
from hypothesis import strategies as st

from harness import core, specs, gen, common, classes  # noqa: F401
from harness.core import Facet, Violation, require

RULE = ("(functor, diagram) pairs: object images of length 0-2 (with adjoints "
        "for rigid), box images = generated diagrams F(dom) -> F(cod), dict or "
        "callable delivery; diagrams with daggered boxes, swaps, cups/caps, "
        "sums, bubbles; non-trivial = some object image has length != 1 and "
        "the diagram has >= 2 boxes, or a cup/cap/swap over a type whose "
        "image has length >= 2")
TARGET = ["p", "q"]


def image_type(obmap, t):
    """ Harness-side F(type): concatenate images; for z != 0 reverse (odd z)
    and shift z. """
    out = []
    for n, z in t:
        img = [list(x) for x in obmap[n]]
        if z % 2:
            img = img[::-1]
        out += [[m, w + z] for m, w in img]
    return out


def gen_key(b):
    dom, cod = (b["cod"], b["dom"]) if b.get("dag") else (b["dom"], b["cod"])
    return (b["name"], specs.skey_ty(dom), specs.skey_ty(cod),
            bool(b.get("word")))


def block_swap_layers(cls, left, right):
    """ Layers of the library's Diagram.swap(left, right), read back as spec
    layers (C10 decides separately that this realises the block swap). """
    m = specs.mod(cls)
    d = m.Diagram.swap(specs.ty(cls, left), specs.ty(cls, right))
    out = []
    for bx, off in zip(d.boxes, d.offsets):
        require(type(bx).__name__ == "Swap", "C04:swap-image-not-swaps",
                lambda: str(d))
        (l,), (r,) = specs.tkey(bx.left), specs.tkey(bx.right)
        out.append([{"k": "swap", "l": list(l), "r": list(r)}, off])
    return out


def image_layers(fspec, cls, b):
    """ Expected image of one box spec, as spec layers from offset 0. """
    obmap = fspec["ob"]
    k = b["k"]
    if k == "box":
        img = fspec["images"][gen_key(b)]
        if b.get("dag"):
            img = specs.spec_dagger(img)
        return [[x, off] for x, off in img["layers"]]
    if k == "swap":
        return block_swap_layers(cls, image_type(obmap, [b["l"]]),
                                 image_type(obmap, [b["r"]]))
    L, R = image_type(obmap, [b["l"]]), image_type(obmap, [b["r"]])
    n = len(L)
    if k == "cup":   # cup k joins L[n-1-k] and R[k] at offset n-1-k
        return [[{"k": "cup", "l": L[n - 1 - i], "r": R[i]}, n - 1 - i]
                for i in range(n)]
    if k == "cap":   # outermost cap first
        return [[{"k": "cap", "l": L[j], "r": R[n - 1 - j]}, j]
                for j in range(n)]
    raise core.HarnessError(k)


def image_spec(fspec, spec, cls):
    obmap = fspec["ob"]
    layers = []
    for (b, off), scan in zip(spec["layers"], specs.scans(spec)):
        shift = len(image_type(obmap, scan[:off]))
        layers += [[x, o + shift] for x, o in image_layers(fspec, cls, b)]
    return {"cls": cls, "dom": image_type(obmap, spec["dom"]),
            "layers": layers}


def name_key(box):
    return (box.name, frozenset([specs.tkey(box.dom), specs.tkey(box.cod)]),
            type(box).__name__, repr(box.data))


def with_data(spec, like, value):
    """ The spec with `value` as the data of every occurrence of the
    generator of box spec `like`. """
    return dict(spec, layers=[
        [dict(b, data=value) if b["k"] == "box"
         and gen_key(b) == gen_key(like) else b, off]
        for b, off in spec["layers"]])


def gen_box(cls, falsy, name, dom, cod, word=False):
    """ The library box of a generator; `falsy` = [box spec, value] names the
    generator that carries (falsy) data, if any. """
    b = {"k": "box", "name": name, "dom": [list(x) for x in dom],
         "cod": [list(x) for x in cod], "dag": False, "word": word}
    if falsy and gen_key(b) == gen_key(falsy[0]):
        b["data"] = falsy[1]
    return specs.box(cls, b)


def build_functor(fspec, cls):
    m = specs.mod(cls)
    obmap = fspec["ob"]
    if cls == "cat":
        ob = {specs.ty(cls, [[n, 0]]): specs.ty(cls, img)
              for n, img in obmap.items()}
    else:
        ob = {specs.ty(cls, [[n, 0]]): specs.ty(cls, img)
              for n, img in obmap.items()}
    ar = {}
    for (name, dom, cod, word), img in fspec["images"].items():
        box = gen_box(cls, fspec.get("falsy"), name, dom, cod, word)
        ar[box] = specs.build(img, fspec.get("route", "ctor"))
    if fspec.get("callable"):
        ob_d, ar_d = ob, ar
        # a callable that computes the image from the box's name and types
        # (it never looks at the dagger flag: the library hands it the
        # generator, not the daggered box); falls back to the mapping when two
        # generators share a name and an unordered pair of types
        by_name = {}
        for box, img in ar.items():
            by_name.setdefault(name_key(box), []).append(img)
        # objects likewise: a total function of the object's name (it is only
        # ever asked about generating objects, adjoints are the library's job)
        ob_n = {n: specs.ty(cls, img) for n, img in obmap.items()}
        ob_f = (lambda t: ob_d[t]) if cls == "cat"\
            else (lambda t: ob_n[t[0].name])
        if all(len(v) == 1 for v in by_name.values()):
            return m.Functor(ob_f, lambda f: by_name[name_key(f)][0])
        return m.Functor(ob_f, lambda f: ar_d[f])
    return m.Functor(ob, ar)


@st.composite
def functor_cases(draw, tier):
    cls = draw(st.sampled_from(["cat", "monoidal", "rigid", "rigid"]))
    big = tier == "thorough"
    pool = []
    d = draw(gen.diagrams(cls, pool=pool, max_boxes=6 if big else 5,
                          max_width=4, min_boxes=1))
    e = draw(gen.diagrams(cls, pool=pool, max_boxes=3, max_width=3))
    par = draw(gen.diagrams_to(cls, d["dom"], specs.spec_cod(d), pool=pool,
                               max_boxes=3, max_width=4))
    names = sorted({n for s in (d, e, par) for sc in specs.scans(s)
                    for n, _ in sc} | {
        n for s in (d, e, par) for b, _ in s["layers"]
        for key in ("l", "r") if key in b for n in [b[key][0]]})
    if cls == "cat":
        obmap = {n: [[draw(st.sampled_from(TARGET)), 0]] for n in names}
    else:
        obmap = {n: draw(gen.types(cls, 0, 2, TARGET, 1)) for n in names}
    images = []
    seen = set()
    tpool = []
    for s in (d, e, par):
        for b, _ in s["layers"]:
            if b["k"] != "box" or gen_key(b) in seen:
                continue
            seen.add(gen_key(b))
            name, dom, cod, word = gen_key(b)
            img = draw(gen.diagrams_to(
                cls, image_type(obmap, dom), image_type(obmap, cod),
                pool=tpool, names=TARGET, max_boxes=2, max_width=5))
            entry = {"gen": [name, [list(x) for x in dom],
                             [list(x) for x in cod], word], "image": img}
            if len(images) < 2:
                # a second, parallel image: the box may be sent to their sum
                entry["alt"] = draw(gen.diagrams_to(
                    cls, image_type(obmap, dom), image_type(obmap, cod),
                    pool=tpool, names=TARGET, max_boxes=2, max_width=5))
            images.append(entry)
    # one generator carries data that is there but falsy
    falsy = draw(st.sampled_from([None, None, 0, [], {}, "", 0.0, False]))
    boxes = [b for s in (d, e, par) for b, _ in s["layers"]
             if b["k"] == "box"]
    extra = {}
    if falsy is not None and boxes:
        like = dict(draw(st.sampled_from(boxes)), dag=False)
        like = dict(like, dom=gen_key(like)[1], cod=gen_key(like)[2])
        d, e, par = (with_data(s, like, falsy) for s in (d, e, par))
        extra = {"falsy": [like, falsy]}
    n = len(d["layers"])
    i = draw(st.integers(0, n))
    return {"cls": cls, "d": d, "e": e, "par": par, "ob": obmap, **extra,
            "images": images, "callable": draw(st.booleans()),
            "cut": [i, draw(st.integers(i, n))],
            "route": draw(st.sampled_from(["ctor", "whisker"]))}


def fspec_of(case):
    return {"ob": case["ob"], "callable": case["callable"],
            "falsy": case.get("falsy"),
            "images": {(g["gen"][0], specs.skey_ty(g["gen"][1]),
                        specs.skey_ty(g["gen"][2]),
                        bool(g["gen"][3]) if len(g["gen"]) > 3 else False):
                       g["image"] for g in case["images"]}}


def eq(x, y, label, detail=""):
    ok = bool(x == y) and bool(y == x)
    if not ok or specs.dkey(x) != specs.dkey(y):
        raise Violation("C04:" + label, "{} {!r} != {!r}".format(
            detail, x, y)[:1500])


def strict_dagger(case):
    """ The strict F(d†) == F(d)† is satisfiable iff every swap in d has a
    side whose image has length <= 1 (DESIGN.md, C04). """
    for b, _ in case["d"]["layers"]:
        if b["k"] == "swap":
            if min(len(case["ob"][b["l"][0]]), len(case["ob"][b["r"][0]])) > 1:
                return False
    return True


def check_functor(case):
    cls = case["cls"]
    fspec = fspec_of(case)
    F = build_functor(fspec, cls)
    sd, se, sp = case["d"], case["e"], case["par"]
    d, e, par = (specs.build(s, case["route"]) for s in (sd, se, sp))
    m = specs.mod(cls)
    Fd = F(d)
    specs.well_typed(Fd, "F(d)")
    # independent expectation: the whole image, assembled on the spec side
    specs.matches_spec(Fd, image_spec(fspec, sd, cls), "F(d)")
    ty_img = lambda t: specs.skey_ty(image_type(case["ob"], t))  # noqa: E731
    require(specs.tkey(Fd.dom) == ty_img(sd["dom"])
            and specs.tkey(Fd.cod) == ty_img(specs.spec_cod(sd)),
            "C04:dom-cod", lambda: "{} : {} -> {}".format(Fd, Fd.dom, Fd.cod))
    if cls != "cat":
        require(specs.tkey(F(d.dom)) == ty_img(sd["dom"]), "C04:F(type)",
                lambda: "{} -> {}".format(d.dom, F(d.dom)))
    i, j = case["cut"]
    eq(F(d[:i] >> d[i:]), F(d[:i]) >> F(d[i:]), "composite")
    sl = dict(sd, dom=specs.scans(sd)[i], layers=sd["layers"][i:j])
    specs.matches_spec(F(d[i:j]), image_spec(fspec, sl, cls), "F(d[i:j])")
    ident = specs.ident(cls, sd["dom"])
    eq(F(ident), specs.ident(cls, image_type(case["ob"], sd["dom"])),
       "identity")
    if cls != "cat":
        eq(F(d @ e), Fd @ F(e), "tensor")
        specs.matches_spec(F(d @ e), image_spec(
            fspec, specs.spec_tensor(sd, se), cls), "F(d @ e)")
    # dagger
    Fdag = F(d[::-1])
    specs.well_typed(Fdag, "F(d[::-1])")
    if strict_dagger(case):
        eq(Fdag, Fd[::-1], "dagger")
        label = "dagger-strict"
    else:
        require(specs.tkey(Fdag.dom) == specs.tkey(Fd.cod)
                and specs.tkey(Fdag.cod) == specs.tkey(Fd.dom)
                and sorted(map(repr, Fdag.boxes))
                == sorted(map(repr, Fd[::-1].boxes)),
                "C04:dagger-up-to-interchange", lambda: "{} vs {}".format(
                    Fdag, Fd[::-1]))
        label = "dagger-up-to-interchange"
    # sums
    total = d + par
    eq(F(total), Fd + F(par), "sum")
    empty = type(total)([], d.dom, d.cod)
    eq(F(empty), type(total)([], Fd.dom, Fd.cod), "empty-sum")
    # sums of one and of three terms: the image is the formal sum of the
    # images, term for term (a sum of one term is not that term)
    for terms in ([d], [d, par, d]):
        image = F(type(total)(terms, d.dom, d.cod))
        want = type(total)([F(x) for x in terms], Fd.dom, Fd.cod)
        require(type(image) is type(want) and len(
            getattr(image, "terms", ())) == len(terms), "C04:sum",
            lambda: "image of a sum of {} terms: {!r}".format(
                len(terms), image)[:800])
        eq(image, want, "sum")
    eq(F((d + empty) >> ident_of(cls, d.cod)), type(total)(
        [Fd], Fd.dom, Fd.cod), "sum")
    # bubbles
    eq(F(d.bubble()), Fd.bubble(), "bubble")
    # bubbles declared with other types than their inside (the ends of e,
    # whatever their images are: longer, shorter, empty)
    if cls != "cat":
        for kw in ({"dom": e.dom}, {"cod": e.cod},
                   {"dom": e.cod, "cod": e.dom}):
            retyped = d.bubble(**kw)
            image = F(retyped)
            want = Fd.bubble(**{k: F(t) for k, t in kw.items()})
            require(specs.tkey(image.dom) == specs.tkey(F(retyped.dom))
                    and specs.tkey(image.cod) == specs.tkey(F(retyped.cod)),
                    "C04:dom-cod", lambda: "bubble {} -> {}: image {} -> {}"
                    .format(retyped.dom, retyped.cod, image.dom, image.cod))
            eq(image, want, "bubble-retyped")
    if cls == "rigid":
        for t in (d.dom, d.cod):
            eq_ty(F(t.l), F(t).l, "left-adjoint")
            eq_ty(F(t.r), F(t).r, "right-adjoint")
    check_sum_images(case, cls)
    lens = [len(v) for v in case["ob"].values()]
    wide = any(b["k"] in ("cup", "cap", "swap")
               and max(len(case["ob"][b["l"][0]]),
                       len(case["ob"][b["r"][0]])) >= 2
               for b, _ in sd["layers"])
    nt = wide or any(x != 1 for x in lens) and len(sd["layers"]) >= 2
    return dict(nt=nt, labels=[cls, label] + (["wide-cup-cap-swap"] if wide
                                              else []),
                show="F({}) = {}".format(common.show(d, 150),
                                         common.show(Fd, 150)))


def check_sum_images_cat(case, with_alt):
    """ Free functors: a box sent to a sum of two parallel arrows; the image
    of a composite is the composite of the images (a sum of composites). """
    from discopy import cat
    if not with_alt:
        return
    d = specs.build(case["d"])
    ob = {specs.ty("cat", [[n, 0]]): specs.ty("cat", img)
          for n, img in case["ob"].items()}
    fspec = fspec_of(case)
    ar = {}
    for (name, dom, cod, word), img in fspec["images"].items():
        box = gen_box("cat", case.get("falsy"), name, dom, cod)
        ar[box] = specs.build(img)
    for g in with_alt:
        name, dom, cod = g["gen"][:3]
        box = gen_box("cat", case.get("falsy"), name, dom, cod)
        ar[box] = specs.build(g["image"]) + specs.build(g["alt"])
    G = cat.Functor(ob, ar)
    if not len(d) or any(b.is_dagger for b in d.boxes):
        return
    chain = G(d.boxes[0])
    for bx in d.boxes[1:]:
        chain = chain >> G(bx)
    if isinstance(chain, cat.Sum):   # some box of d is sent to a sum
        eq(G(d), chain, "composite-of-sum-images")


def check_sum_images(case, cls):
    """ Boxes sent to formal sums of two parallel diagrams: the image of
    two boxes side by side (or one after the other) is the tensor (composite)
    of their images, term for term. """
    with_alt = [g for g in case["images"] if "alt" in g]
    if cls == "cat":
        return check_sum_images_cat(case, with_alt)
    if len(with_alt) < 2:
        return
    m = specs.mod(cls)
    ob = {specs.ty(cls, [[n, 0]]): specs.ty(cls, img)
          for n, img in case["ob"].items()}
    ar, boxes = {}, []
    for g in with_alt:
        name, dom, cod = g["gen"][:3]
        word = g["gen"][3] if len(g["gen"]) > 3 else False
        box = gen_box(cls, case.get("falsy"), name, dom, cod, word)
        ar[box] = specs.build(g["image"]) + specs.build(g["alt"])
        boxes.append(box)
    G = m.Functor(ob, ar)
    a, b = boxes
    for box in boxes:   # the image of the box is the sum it was given
        eq(G(box), ar[box], "sum-image")
        require(type(G(box)) is type(ar[box]) and len(G(box).terms) == 2,
                "C04:sum-image", lambda: repr(G(box)))
    # a box sent to the sum of no terms at all: its dagger goes to the empty
    # sum the other way round, a composite ending in it has the right ends
    zero = type(ar[a])([], G(a.dom), G(a.cod))
    Z = m.Functor(ob, {a: zero, b: ar[b]})
    for what, x in (("box", a), ("dagger", a[::-1]),
                    ("composite", a >> a[::-1]), ("tensor", b @ a[::-1])):
        image = Z(x)
        require(specs.tkey(image.dom) == specs.tkey(Z(x.dom))
                and specs.tkey(image.cod) == specs.tkey(Z(x.cod)),
                "C04:dom-cod", lambda: "image of the {} of a box sent to the "
                "empty sum: {} -> {}, expected {} -> {}".format(
                    what, image.dom, image.cod, Z(x.dom), Z(x.cod)))
        if what in ("box", "dagger", "composite"):
            require(type(image) is type(zero) and not image.terms,
                    "C04:sum-image", lambda: repr(image))
    eq(G(a @ b), ar[a] @ ar[b], "tensor-of-sum-images")
    eq(G(a @ b), G(a) @ G(b), "tensor-of-sum-images")
    eq(G(b @ a @ b), G(b) @ G(a) @ G(b), "tensor-of-sum-images")
    if specs.tkey(a.cod) == specs.tkey(b.dom):
        eq(G(a >> b), G(a) >> G(b), "composite-of-sum-images")


def ident_of(cls, t):
    return specs.mod(cls).Id(t)


def eq_ty(x, y, label):
    require(x == y and specs.tkey(x) == specs.tkey(y), "C04:" + label,
            lambda: "{!r} != {!r}".format(x, y))


core.register("C04", [
    Facet("functor", functor_cases, check_functor, n_quick=3000,
          shards_quick=8, rule=RULE),
], rule=RULE, assumptions=[
    "the image of a block swap is compared with the library's "
    "Diagram.swap(F(a), F(b)) (C10 decides that this realises the block "
    "permutation)",
    "F(d.dagger()) == F(d).dagger() is asserted strictly only when every "
    "swap in d has a side whose image has length <= 1; otherwise up to "
    "interchange (same boxes, same types)"])
