"""C08 Tensors form a dagger compact-closed category of matrices."""
import numpy as np
from hypothesis import strategies as st

from harness import core, specs, common
from harness.core import Facet, Violation, require

RULE = ("tensors with dimension tuples of length 0-3 over {1, 2, 3} and "
        "Gaussian-integer entries, compared exactly with numpy matrix "
        "product / kron / conjugate transpose / permutation matrices; "
        "non-trivial = some side has >= 2 wires with unequal dimensions")

dims = st.lists(st.integers(1, 3), min_size=0, max_size=3)


def size(t):
    out = 1
    for d in t:
        out *= d
    return out


@st.composite
def tspec(draw, dom=None, cod=None):
    dom = draw(dims) if dom is None else dom
    cod = draw(dims) if cod is None else cod
    n = size(dom) * size(cod)
    vals = draw(st.lists(st.integers(-3, 3), min_size=2 * n, max_size=2 * n))
    return {"dom": dom, "cod": cod, "vals": vals,
            "layout": draw(st.sampled_from(
                ["shaped", "shaped", "list", "fortran", "matrix",
                 "matrix-fortran", "view", "object"]))}


def build(t):
    """ The same entries handed over in the ways a user may hold them: an
    array of shape dom + cod, a flat list, a column-major copy, a dom x cod
    matrix (row- or column-major), a transposed view of the transpose. The
    constructor reads all of them in index (row-major) order. """
    from discopy.tensor import Dim, Tensor
    shape = [d for d in t["dom"] + t["cod"]]
    arr = specs.cplx(t["vals"], shape)
    layout = t.get("layout", "shaped")
    if layout == "list":
        arr = arr.flatten().tolist()
    elif layout == "object":   # Python numbers in an object array
        arr = np.array(arr.flatten().tolist(), dtype=object).reshape(
            arr.shape)
    elif layout == "fortran":
        arr = np.asfortranarray(arr)
    elif layout in ("matrix", "matrix-fortran", "view"):
        arr = arr.reshape(size(t["dom"]), size(t["cod"]))
        if layout == "matrix-fortran":
            arr = np.asfortranarray(arr)
        elif layout == "view":
            arr = np.ascontiguousarray(arr.T).T
    return Tensor(Dim(*t["dom"]), Dim(*t["cod"]), arr)


def mat_of(t):
    """ Reference matrix of a tensor spec. """
    return specs.cplx(t["vals"], t["dom"] + t["cod"]).reshape(
        size(t["dom"]), size(t["cod"]))


def mat(x, what=""):
    """ Matrix of a library Tensor: flattened dom x flattened cod. """
    rows = size(list(x.dom))
    arr = np.asarray(x.array)
    require(arr.size == rows * size(list(x.cod)), "C08:array-size",
            lambda: "{} {} -> {} has {} entries".format(
                what, x.dom, x.cod, arr.size))
    return arr.reshape(rows, -1)


def same(lib, ref, label, detail=""):
    got = mat(lib, label)
    require(got.shape == ref.shape and np.array_equal(got, ref),
            "C08:" + label, lambda: "{}: got {} expected {}".format(
                detail, got.tolist(), np.asarray(ref).tolist())[:1200])


def dim_key(t):
    return [d for d in t if d != 1]


def types(x, dom, cod, label):
    require(list(x.dom) == dim_key(dom) and list(x.cod) == dim_key(cod),
            "C08:" + label + ":types",
            lambda: "{} -> {} expected {} -> {}".format(
                x.dom, x.cod, dom, cod))


def perm_matrix(l, r):
    nl, nr = size(l), size(r)
    P = np.zeros((nl * nr, nl * nr), dtype=np.int64)
    for i in range(nl):
        for j in range(nr):
            P[i * nr + j, j * nl + i] = 1
    return P


@st.composite
def law_cases(draw, tier):
    a = draw(tspec())
    b = draw(tspec())
    c = draw(tspec(dom=a["cod"]))
    d = draw(tspec(dom=b["cod"]))
    return {"a": a, "b": b, "c": c, "d": d, "l": draw(dims), "r": draw(dims),
            "x": draw(dims)}


def check_laws(case):
    from discopy.tensor import Dim, Tensor
    sa, sb, sc, sd = case["a"], case["b"], case["c"], case["d"]
    a, b, c, d = map(build, (sa, sb, sc, sd))
    A, B, C, D = map(mat_of, (sa, sb, sc, sd))
    same(a, A, "array-roundtrip")
    same(a >> c, A @ C, "then-is-matrix-product", "{} >> {}".format(a, c))
    types(a >> c, sa["dom"], sc["cod"], "then")
    same(a @ b, np.kron(A, B), "tensor-is-kron", "{} @ {}".format(a, b))
    types(a @ b, sa["dom"] + sb["dom"], sa["cod"] + sb["cod"], "tensor")
    same(a.dagger(), A.conj().T, "dagger-is-conjugate-transpose", str(a))
    types(a.dagger(), sa["cod"], sa["dom"], "dagger")
    same(a[::-1], A.conj().T, "dagger-slice", str(a))
    same(Tensor.id(Dim(*case["x"])), np.eye(size(case["x"])), "identity")
    # interchange law
    same((a @ b) >> (c @ d), np.kron(A @ C, B @ D), "interchange-law")
    lhs, rhs = (a @ b) >> (c @ d), (a >> c) @ (b >> d)
    require(bool(lhs == rhs), "C08:interchange-law-eq", "")
    # swaps
    l, r = case["l"], case["r"]
    s = Tensor.swap(Dim(*l), Dim(*r))
    same(s, perm_matrix(l, r), "swap-is-block-permutation",
         "swap({}, {})".format(l, r))
    types(s, l + r, r + l, "swap")
    # naturality of swaps: (a @ b) >> swap(cod a, cod b) == swap >> (b @ a)
    s1 = Tensor.swap(Dim(*sa["cod"]), Dim(*sb["cod"]))
    s0 = Tensor.swap(Dim(*sa["dom"]), Dim(*sb["dom"]))
    same((a @ b) >> s1, mat(s0 >> (b @ a)), "swap-naturality")
    same((a @ b) >> s1, np.kron(A, B) @ perm_matrix(sa["cod"], sb["cod"]),
         "swap-naturality-ref")
    require(bool(((a @ b) >> s1) == (s0 >> (b @ a))),
            "C08:swap-naturality-eq", "")
    same(s >> Tensor.swap(Dim(*r), Dim(*l)), np.eye(size(l) * size(r)),
         "swap-involution")
    # snake equations on multi-wire types
    x = Dim(*case["x"])
    n = size(case["x"])
    cup, cap = Tensor.cups(x, x.r), Tensor.caps(x.r, x)
    same(Tensor.id(x) @ cap >> cup @ Tensor.id(x), np.eye(n), "snake-left",
         str(x))
    cup, cap = Tensor.cups(x.l, x), Tensor.caps(x, x.l)
    same(cap @ Tensor.id(x) >> Tensor.id(x) @ cup, np.eye(n), "snake-right",
         str(x))
    # cups are the (nested) unnormalised Bell effects
    xs = case["x"]
    E = np.zeros((n, n), dtype=np.int64)
    for idx in np.ndindex(*xs) if xs else [()]:
        i = int(np.ravel_multi_index(idx, xs)) if xs else 0
        j = int(np.ravel_multi_index(idx[::-1], xs[::-1])) if xs else 0
        E[i, j] = 1
    same(Tensor.cups(x, x.r), E.reshape(n * n, 1), "cups-pair-mirror-wires",
         str(x))
    same(Tensor.caps(x, x.l), E.reshape(1, n * n), "caps-pair-mirror-wires",
         str(x))
    # the same cups, caps and snakes as images of rigid cups and caps under
    # a tensor functor sending one object to several wires (the library
    # sends an object and its adjoints to the same Dim, so the image has to
    # read the same backwards for the request to be well-typed)
    from discopy import rigid, tensor
    pal = list(xs) if list(xs) == list(xs)[::-1] else list(xs) + list(xs)[::-1]
    if size(pal) <= 36:
        t, P, m = rigid.Ty("t"), Dim(*pal), size(pal)
        F = tensor.Functor(ob={t: P}, ar={})
        EP = np.zeros((m, m), dtype=np.int64)
        for idx in np.ndindex(*pal) if pal else [()]:
            i = int(np.ravel_multi_index(idx, pal)) if pal else 0
            j = int(np.ravel_multi_index(idx[::-1], pal[::-1])) if pal else 0
            EP[i, j] = 1
        for cup in (rigid.Cup(t, t.r), rigid.Cup(t.l, t)):
            same(F(cup), EP.reshape(m * m, 1), "functor-cup-image",
                 "{} with t -> {}".format(cup, P))
        for cap in (rigid.Cap(t, t.l), rigid.Cap(t.r, t)):
            same(F(cap), EP.reshape(1, m * m), "functor-cap-image",
                 "{} with t -> {}".format(cap, P))
        for snake in (
                rigid.Cap(t, t.l) @ rigid.Id(t) >> rigid.Id(t)
                @ rigid.Cup(t.l, t),
                rigid.Id(t) @ rigid.Cap(t.r, t) >> rigid.Cup(t, t.r)
                @ rigid.Id(t),
                (rigid.Cap(t, t.l) @ rigid.Id(t) >> rigid.Id(t)
                 @ rigid.Cup(t.l, t)).dagger()):
            same(F(snake), np.eye(m), "functor-snake-image",
                 "{} with t -> {}".format(snake, P))
    nt = any(len(set(t)) >= 2 for t in (sa["dom"], sa["cod"], sb["dom"],
                                        sb["cod"], l + r, xs))
    return dict(nt=nt, labels=["w%d" % len(sa["dom"] + sa["cod"])],
                show="{} ; {}".format(a, b)[:300])


@st.composite
def misc_cases(draw, tier):
    a = draw(tspec())
    return {"a": a, "b": draw(tspec(dom=a["dom"], cod=a["cod"])),
            "bad": draw(tspec())}


def check_misc(case):
    """ Sums, refusals and the remaining helpers. """
    from discopy.tensor import Dim, Tensor
    from discopy.cat import AxiomError
    sa, sb = case["a"], case["b"]
    a, b = build(sa), build(sb)
    A, B = mat_of(sa), mat_of(sb)
    same(a + b, A + B, "addition")
    same(a.conjugate(), A.conj(), "conjugate")
    same(Tensor.zeros(a.dom, a.cod), np.zeros_like(A), "zeros")
    # the same tensor as a box of a diagram: its dagger evaluates to the
    # conjugate transpose (several wires on either side included)
    from discopy import tensor
    shape = [d for d in sa["dom"] + sa["cod"]]
    box = tensor.Box("f", Dim(*sa["dom"]), Dim(*sa["cod"]),
                     specs.cplx(sa["vals"], shape))
    same(box.eval(), A, "box-eval")
    same(box.dagger().eval(), A.conj().T, "box-dagger-eval")
    same((box >> box.dagger()).eval(), A @ A.conj().T, "box-then-dagger")
    # tensor of several factors at once
    c = build(case["bad"])
    C = mat_of(case["bad"])
    # the same laws through diagrams of tensor boxes: whiskering on either
    # side, the tensor of two boxes drawn both ways round (interchange law)
    sc = case["bad"]
    boxc = tensor.Box("g", Dim(*sc["dom"]), Dim(*sc["cod"]),
                      specs.cplx(sc["vals"], list(sc["dom"] + sc["cod"])))
    idc, ida = np.eye(size(sc["dom"])), np.eye(size(sa["dom"]))
    same((box @ tensor.Id(boxc.dom)).eval(), np.kron(A, idc),
         "diagram-whisker-right", "{} @ Id({})".format(box, boxc.dom))
    same((tensor.Id(boxc.dom) @ box).eval(), np.kron(idc, A),
         "diagram-whisker-left", "Id({}) @ {}".format(boxc.dom, box))
    same((box @ boxc).eval(), np.kron(A, C), "diagram-tensor-is-kron",
         "{} @ {}".format(box, boxc))
    same((tensor.Id(box.dom) @ boxc >> box @ tensor.Id(boxc.cod)).eval(),
         np.kron(A, C), "diagram-interchange-law",
         "{} @ {}".format(box, boxc))
    same((boxc @ box @ boxc).eval(), np.kron(np.kron(C, A), C),
         "diagram-tensor-is-kron", "{} @ {} @ {}".format(boxc, box, boxc))
    # the same through a functor sending each object to a whole type (no
    # wire, one, several): boxes with an idle object in between, after a swap
    from discopy import rigid
    x, y, z, w = map(rigid.Ty, "xyzw")
    f, g = rigid.Box("f", x, y), rigid.Box("g", z, w)
    F = tensor.Functor(
        ob={x: Dim(*sa["dom"]), y: Dim(*sa["cod"]), z: Dim(*sc["dom"]),
            w: Dim(*sc["cod"])},
        ar={f: specs.cplx(sa["vals"], shape),
            g: specs.cplx(sc["vals"], list(sc["dom"] + sc["cod"]))})
    images = "x -> {}, y -> {}, z -> {}, w -> {}".format(
        sa["dom"], sa["cod"], sc["dom"], sc["cod"])
    na, nc = size(sa["dom"]), size(sc["dom"])
    ma, mc = size(sa["cod"]), size(sc["cod"])
    small = 2000   # entries of the largest matrix built below
    if na * na * nc * ma * na * mc <= small:
        same(F(f @ rigid.Id(x) @ g), np.kron(np.kron(A, ida), C),
             "functor-idle-wire-between", images)
    if nc * nc * na * na * mc * nc * na * ma <= small:
        same(F(g @ rigid.Id(z @ x) @ f),
             np.kron(np.kron(np.kron(C, idc), ida), A),
             "functor-idle-wire-between", images)
    if (na * nc * na * nc) ** 2 <= small:
        same(F(rigid.Diagram.swap(x, z) @ rigid.Id(x) @ g), np.kron(np.kron(
            perm_matrix(sa["dom"], sc["dom"]), ida), C),
            "functor-idle-wire-after-swap", images)
    if (na * nc) ** 2 * ma <= small:
        # a box right after a swap, on the wire that was moved to the right
        same(F(rigid.Diagram.swap(x, z) >> rigid.Id(z) @ f),
             perm_matrix(sa["dom"], sc["dom"]) @ np.kron(idc, A),
             "functor-box-after-swap", images)
        same(F(rigid.Diagram.swap(z, x) >> f @ rigid.Id(z)),
             perm_matrix(sc["dom"], sa["dom"]) @ np.kron(A, idc),
             "functor-box-after-swap", images)
    if na * nc * ma * nc * mc * ma <= small:
        same(F(f @ rigid.Id(z) >> rigid.Diagram.swap(y, z)
               >> g @ rigid.Id(y)),
             np.kron(A, idc) @ perm_matrix(sa["cod"], sc["dom"])
             @ np.kron(C, np.eye(ma)), "functor-swap-naturality", images)
    same(a.tensor(b, c), np.kron(np.kron(A, B), C), "tensor-variadic")
    same(Tensor.id(Dim(1)).tensor(a, b, c), np.kron(np.kron(A, B), C),
         "tensor-variadic-from-unit")
    same(a.tensor(), A, "tensor-nothing")
    bad = build(case["bad"])
    if list(a.cod) != list(bad.dom):
        common.expect_raises(lambda: a >> bad, (AxiomError, Exception),
                             "C08:ill-typed-composition-accepted",
                             "{} >> {}".format(a, bad))
    return dict(nt=len(sa["dom"] + sa["cod"]) >= 2, labels=["misc"])


core.register("C08", [
    Facet("laws", law_cases, check_laws, n_quick=4000, shards_quick=8,
          rule=RULE),
    Facet("misc", misc_cases, check_misc, n_quick=1200, shards_quick=2,
          rule="sums, conjugate, zeros and refusal of ill-typed requests"),
], rule=RULE, assumptions=[
    "Gaussian-integer entries keep every contraction exact: array_equal, "
    "no tolerance", "Dim drops dimensions equal to 1 (Dim(1) is the unit)"])
