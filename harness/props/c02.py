"""C02 Diagrams obey the strict dagger-monoidal and sum laws as equalities."""
from hypothesis import strategies as st

from harness import core, specs, gen, common, classes  # noqa: F401
from harness.core import Facet, Violation, require

CLASSES = ["cat", "monoidal", "rigid", "tensor"]
try:
    from harness import qspec  # noqa: F401 (registers circuit, zx)
    CLASSES += qspec.DIAGRAM_CLASSES
except ImportError:  # pragma: no cover
    pass
try:
    from harness import xspec  # noqa: F401 (registers biclosed, cartesian)
    CLASSES += xspec.DIAGRAM_CLASSES
except ImportError:  # pragma: no cover
    pass

# cartesian boxes wrap Python functions: the class defines no dagger at all
# (Box.dagger() raises TypeError), so the dagger clauses do not apply to it.
NO_DAGGER = {"cartesian"}

RULE = ("composable / arbitrary triples of generated diagrams in every "
        "diagram class; non-trivial = the operands have together >= 3 boxes "
        "and some operand has an empty domain or codomain, a daggered box, or "
        "width >= 2")


def wrap(cls, d):
    """ In the semantic subclasses a bare box is compared through the one-box
    diagram that wraps it. """
    from discopy import cat
    if cls in ("cat", "monoidal", "rigid"):
        return d
    if isinstance(d, cat.Box) and not isinstance(d, cat.Sum):
        return specs.mod(cls).Diagram(d.dom, d.cod, [d], [0])
    return d


def eq(cls, x, y, label, detail=""):
    """ x == y as returned values: library `==` both ways and, so that a
    broken __eq__ cannot hide a difference, the structural keys. """
    xw, yw = wrap(cls, x), wrap(cls, y)
    ok = bool(xw == yw) and bool(yw == xw)
    if not ok:
        raise Violation("C02:" + label, "{}: {!r} != {!r}".format(
            detail, x, y)[:1500])
    if specs.dkey(xw) != specs.dkey(yw):
        raise Violation("C02:" + label + ":keys-differ",
                        "{}: == holds but {!r} and {!r} differ structurally"
                        .format(detail, x, y)[:1500])


def nontrivial(specs_list):
    n = sum(len(s["layers"]) for s in specs_list)
    rich = False
    for s in specs_list:
        sc = specs.scans(s)
        if max(len(x) for x in sc) >= 2:
            rich = True
        for b, _ in s["layers"]:
            if not specs.bdom(b) or not specs.bcod(b) or b.get("dag"):
                rich = True
    return n >= 3 and rich


@st.composite
def triples(draw, tier, composable):
    cls = draw(st.sampled_from(CLASSES))
    kw = dict(max_boxes=5 if tier == "quick" else 7, max_width=4)
    pool = []
    a = draw(gen.diagrams(cls, pool=pool, **kw))
    if composable:
        b = draw(gen.diagrams(cls, dom=specs.spec_cod(a), pool=pool, **kw))
        c = draw(gen.diagrams(cls, dom=specs.spec_cod(b), pool=pool, **kw))
    else:
        b = draw(gen.diagrams(cls, pool=pool, **kw))
        c = draw(gen.diagrams(cls, pool=pool, **kw))
    return {"cls": cls, "a": a, "b": b, "c": c,
            "route": draw(st.sampled_from(["ctor", "whisker"]))}


def check_category(case):
    cls = case["cls"]
    sa, sb, sc = case["a"], case["b"], case["c"]
    a, b, c = (specs.build(s, case["route"]) for s in (sa, sb, sc))
    ident = lambda t: specs.ident(cls, t)  # noqa: E731
    eq(cls, (a >> b) >> c, a >> (b >> c), "assoc-then")
    eq(cls, a.then(b, c), a >> b >> c, "then-variadic")
    eq(cls, c << b << a, a >> b >> c, "lshift")
    eq(cls, ident(sa["dom"]) >> a, a, "left-unit")
    eq(cls, a >> ident(specs.spec_cod(sa)), a, "right-unit")
    eq(cls, a.then(), a, "then-nothing")
    # the unit laws on a bare box (not wrapped in a diagram by the harness):
    # both composites are the same value, of the same type
    plain = [b_ for b_, _ in sa["layers"] if b_["k"] == "box"]
    if plain:
        f = specs.box(cls, plain[0])
        lhs = ident(specs.bdom(plain[0])) >> f
        rhs = f >> ident(specs.bcod(plain[0]))
        require(bool(lhs == rhs) and bool(rhs == lhs)
                and type(lhs) is type(rhs), "C02:unit-laws-on-a-bare-box",
                lambda: "Id >> f = {!r} ({}) but f >> Id = {!r} ({})".format(
                    lhs, type(lhs).__name__, rhs, type(rhs).__name__))
        if cls not in NO_DAGGER:
            require(bool(lhs[::-1] == rhs[::-1]),
                    "C02:unit-laws-on-a-bare-box", lambda: repr(lhs))
    ab = a >> b
    if cls not in NO_DAGGER:
        eq(cls, a[::-1][::-1], a, "dagger-involutive")
        eq(cls, a.dagger(), a[::-1], "dagger-is-[::-1]")
        eq(cls, ident(sa["dom"])[::-1], ident(sa["dom"]), "dagger-identity")
        eq(cls, (a >> b)[::-1], b[::-1] >> a[::-1], "dagger-reverses")
        dag = a[::-1]
        require(specs.tkey(dag.dom) == specs.tkey(a.cod)
                and specs.tkey(dag.cod) == specs.tkey(a.dom),
                "C02:dagger-identity-on-objects",
                lambda: "{} : {} -> {}".format(dag, dag.dom, dag.cod))
        specs.well_typed(dag, "a[::-1]")
        if cls in ("cat", "monoidal", "rigid", "tensor", "biclosed"):
            specs.matches_spec(dag, specs.spec_dagger(sa), "a[::-1]")
    for i in range(len(ab) + 1):
        eq(cls, ab[:i] >> ab[i:], ab, "slice-recompose", "i={}".format(i))
    # independent expectation: the composite is the concatenation
    specs.matches_spec(ab >> c, specs.spec_then(specs.spec_then(sa, sb), sc),
                       "a >> b >> c")
    specs.well_typed(ab >> c, "a >> b >> c")
    return dict(nt=nontrivial([sa, sb, sc]), labels=[cls],
                show="{} | {} | {}".format(*map(common.show, (a, b, c))))


def check_monoidal(case):
    cls = case["cls"]
    if cls == "cat":
        return dict(nt=False, labels=["cat-has-no-tensor"])
    sa, sb, sc = case["a"], case["b"], case["c"]
    a, b, c = (specs.build(s, case["route"]) for s in (sa, sb, sc))
    ident = lambda t: specs.ident(cls, t)  # noqa: E731
    eq(cls, (a @ b) @ c, a @ (b @ c), "assoc-tensor")
    eq(cls, a.tensor(b, c), a @ b @ c, "tensor-variadic")
    eq(cls, ident([]) @ a, a, "left-unit-tensor")
    eq(cls, a @ ident([]), a, "right-unit-tensor")
    eq(cls, a.tensor(), a, "tensor-nothing")
    eq(cls, a @ b,
       a @ ident(sb["dom"]) >> ident(specs.spec_cod(sa)) @ b,
       "tensor-is-whiskered-composite")
    ab = a @ b
    specs.matches_spec(ab @ c, specs.spec_tensor(specs.spec_tensor(sa, sb), sc),
                       "a @ b @ c")
    specs.well_typed(ab @ c, "a @ b @ c")
    for i in range(len(ab) + 1):
        eq(cls, ab[:i] >> ab[i:], ab, "slice-recompose", "i={}".format(i))
    if cls not in NO_DAGGER:
        eq(cls, ab[::-1][::-1], ab, "dagger-involutive")
    return dict(nt=nontrivial([sa, sb, sc]), labels=[cls],
                show="{} | {} | {}".format(*map(common.show, (a, b, c))))


@st.composite
def sum_cases(draw, tier):
    cls = draw(st.sampled_from(CLASSES))
    kw = dict(max_boxes=4, max_width=4)
    pool = []
    first = draw(gen.diagrams(cls, pool=pool, **kw))
    dom, cod = first["dom"], specs.spec_cod(first)
    terms = [first] + [
        draw(gen.diagrams_to(cls, dom, cod, pool=pool, **kw))
        for _ in range(draw(st.integers(0, 2)))]
    pre = draw(gen.diagrams_to(
        cls, draw(gen.types(cls, 1 if cls == "cat" else 0, 1 if cls == "cat"
                            else 2, gen.CLASS_NAMES.get(cls, gen.NAMES))),
        dom, pool=pool, **kw))
    post = draw(gen.diagrams(cls, dom=cod, pool=pool, **kw))
    other = draw(gen.diagrams(cls, pool=pool, **kw))
    n_s = draw(st.integers(0, len(terms)))
    return {"cls": cls, "terms": terms, "split": n_s, "pre": pre,
            "post": post, "other": other}


def check_sums(case):
    cls = case["cls"]
    m = specs.mod(cls)
    terms = [specs.build(t) for t in case["terms"]]
    pre, post, other = (specs.build(case[k]) for k in ("pre", "post", "other"))
    dom, cod = terms[0].dom, terms[0].cod
    Sum = type(terms[0]).sum if hasattr(type(terms[0]), "sum") else m.Sum
    zero = Sum([], dom, cod)

    def total(ts, d=dom, c=cod):
        return Sum(list(ts), d, c)
    s, t = total(terms[:case["split"]]), total(terms[case["split"]:])
    both = total(terms)
    eq(cls, s + t, both, "sum-concatenates")
    eq(cls, both + zero, both, "empty-sum-right-unit")
    eq(cls, zero + both, both, "empty-sum-left-unit")
    if terms:
        eq(cls, terms[0] + zero, total(terms[:1]), "diagram-plus-empty")
    eq(cls, both >> post, total([x >> post for x in terms], dom, post.cod),
       "then-distributes-left")
    eq(cls, pre >> both, total([pre >> x for x in terms], pre.dom, cod),
       "then-distributes-right")
    if cls not in NO_DAGGER:
        eq(cls, both[::-1], total([x[::-1] for x in terms], cod, dom),
           "dagger-distributes")
    eq(cls, (s >> total([post], cod, post.cod)),
       total([x >> post for x in terms[:case["split"]]], dom, post.cod),
       "sum-then-sum")
    two = total([post, post], cod, post.cod)
    eq(cls, both >> two,
       total([x >> y for x in terms for y in (post, post)], dom, post.cod),
       "bilinear-then")
    if cls != "cat":
        eq(cls, s @ two, total([x @ y for x in terms[:case["split"]]
                                for y in (post, post)],
                               dom @ cod, cod @ post.cod),
           "bilinear-tensor")
        eq(cls, both @ t, total([x @ y for x in terms
                                 for y in terms[case["split"]:]],
                                dom @ dom, cod @ cod), "bilinear-tensor")
        eq(cls, both @ other,
           total([x @ other for x in terms], dom @ other.dom,
                 cod @ other.cod), "tensor-distributes-left")
        eq(cls, other @ both,
           total([other @ x for x in terms], other.dom @ dom,
                 other.cod @ cod), "tensor-distributes-right")
    if cls != "cat":
        # tensor of several factors at once, a sum among them (first, in the
        # middle, last): same as tensoring them one after the other
        for what, lhs, rhs in (
                ("first", both.tensor(other, pre), (both @ other) @ pre),
                ("first-parallel", both.tensor(other, other),
                 (both @ other) @ other),
                ("middle", other.tensor(both, pre, other),
                 ((other @ both) @ pre) @ other),
                ("last", other.tensor(pre, both), (other @ pre) @ both),
                ("from-unit", other.id(other.dom[:0]).tensor(
                    both, other, other), (both @ other) @ other),
                ("only", both.tensor(), both)):
            eq(cls, lhs, rhs, "tensor-variadic-with-sum:" + what)
        eq(cls, both.tensor(other, other), total(
            [(x @ other) @ other for x in terms], dom @ other.dom @ other.dom,
            cod @ other.cod @ other.cod), "tensor-variadic-with-sum:terms")
    # the empty sum (zero) absorbs composition and tensor, with the types of
    # the composite: plain diagram or one-term sum on the other side
    eq(cls, pre >> zero, total([], pre.dom, cod), "diagram-then-zero")
    eq(cls, total([pre], pre.dom, pre.cod) >> zero, total([], pre.dom, cod),
       "sum-then-zero")
    eq(cls, zero >> post, total([], dom, post.cod), "zero-then-diagram")
    eq(cls, zero >> total([post], cod, post.cod), total([], dom, post.cod),
       "zero-then-sum")
    if cls not in NO_DAGGER:
        eq(cls, zero[::-1], total([], cod, dom), "zero-dagger")
    if cls != "cat":
        eq(cls, other @ zero, total([], other.dom @ dom, other.cod @ cod),
           "diagram-tensor-zero")
        eq(cls, zero @ other, total([], dom @ other.dom, cod @ other.cod),
           "zero-tensor-diagram")
    specs.well_typed(both >> post, "sum >> diagram")
    return dict(nt=len(terms) >= 2 and nontrivial(
        case["terms"] + [case["post"]]), labels=[cls, "terms%d" % len(terms)],
        show=common.show(both))


def enum_slash_units(tier):
    """ Biclosed boxes whose whole domain (codomain) is one slash type, the
    sides of which may be empty or composite. """
    sides = [[], [["x", 0]], [["x", 0], ["y", 0]]]
    for tag in ("o", "u"):
        for left in sides:
            for right in sides:
                yield {"t": [{tag: [left, right]}]}
    yield {"t": [{"o": [[{"u": [[], [["x", 0]]]}], [["y", 0]]]}]}


def check_slash_units(case):
    from harness import xspec
    from discopy import biclosed
    # the slash type itself (an Over / Under), not a tensor of one object
    t, y = xspec.bob(case["t"][0]), biclosed.Ty("y")
    unit = biclosed.Ty()
    f, g = biclosed.Box("f", t, y), biclosed.Box("g", y, t)
    ident = biclosed.Id
    for box in (f, g):
        for what, lhs in (
                ("left-unit-tensor", ident(unit) @ box),
                ("right-unit-tensor", box @ ident(unit)),
                ("left-unit", ident(box.dom) >> box),
                ("right-unit", box >> ident(box.cod))):
            eq("biclosed", lhs, box, what, repr(t))
            require(bool(lhs.dom == box.dom) and bool(box.dom == lhs.dom)
                    and bool(lhs.cod == box.cod) and bool(box.cod == lhs.cod)
                    and type(lhs.dom) is type(ident(box.dom).dom),
                    "C02:" + what + ":types", lambda: "{!r}: {!r} -> {!r}"
                    .format(box, lhs.dom, lhs.cod))
        wide = ident(unit) @ box @ ident(y)
        require(bool(wide.dom[:len(box.dom)] == box.dom)
                and bool(box.dom == wide.dom[:len(box.dom)]),
                "C02:slice-of-a-type", lambda: "{!r}[:{}] = {!r}".format(
                    wide.dom, len(box.dom), wide.dom[:len(box.dom)]))
        eq("biclosed", (ident(unit) @ box)[::-1][::-1], box,
           "dagger-involutive", repr(t))
        dag = (ident(unit) @ box)[::-1]
        require(bool(dag.dom == box.cod) and bool(dag.cod == box.dom),
                "C02:dagger-identity-on-objects", lambda: repr(dag))
        eq("biclosed", (box + (ident(unit) @ box)),
           type(box).sum([box, box], box.dom, box.cod) if hasattr(
               type(box), "sum") else box + box, "sum-of-two-spellings",
           repr(t))
    sides = case["t"][0]
    return dict(nt=any(not side for (side,) in [[v] for v in list(
        sides.values())[0]]), labels=[list(sides)[0]], show=repr(t))


core.register("C02", [
    Facet("category", lambda tier: triples(tier, True), check_category,
          n_quick=2400, shards_quick=8, rule=RULE),
    Facet("monoidal", lambda tier: triples(tier, False), check_monoidal,
          n_quick=1000, shards_quick=5, rule=RULE),
    Facet("slash_units", None, check_slash_units, enum=enum_slash_units,
          rule="unit laws, slices and dagger for biclosed boxes typed by one "
          "slash type whose sides are empty, atomic or composite"),
    Facet("sums", sum_cases, check_sums, n_quick=800, shards_quick=4,
          rule="formal sums of 1-3 parallel generated diagrams with a pre-, "
          "post- and side diagram; non-trivial = >= 2 terms and the rule "
          "above"),
], rule=RULE, assumptions=[
    "both sides are computed by the library and compared with == in both "
    "directions AND by structural keys read from attributes; composites and "
    "daggers are additionally compared with the harness-side spec "
    "concatenation/reversal"])
