"""C16 Circuits translate to ZX diagrams denoting the same linear map."""
import numpy as np
from hypothesis import strategies as st

from harness import core, specs, gen, common, qspec, qsem, findings
from harness.core import Facet, Violation, require
from harness.props import c14
from harness.props.c11 import phases

RULE = ("pure circuits over {Ket, Bra, H, X, Y, Z, CX, CZ, Rx, Rz, CRz, CRx, "
        "CU1, SWAP, scalar} with generated phases and bitstrings: the image "
        "under circuit2zx, read back and interpreted by the standard ZX "
        "semantics (O8), is proportional to the circuit's pure evaluation "
        "with one non-zero factor; arbitrary ZX diagrams for the dagger "
        "clause; non-trivial = a (controlled) rotation with phase outside "
        "{0, 1/2, 1} or >= 3 gates")
TOL = dict(atol=1e-9, rtol=1e-9)
SUPPORTED1 = ["H", "X", "Y", "Z"]
CONTROLLED_ROT = ["CRz", "CRx", "CU1"]


def proportional(got, ref, label, detail):
    got, ref = np.asarray(got, dtype=complex), np.asarray(ref, dtype=complex)
    require(got.size == ref.size, "C16:" + label + ":shape", detail)
    got = got.reshape(ref.shape)
    k = np.unravel_index(np.argmax(np.abs(ref)), ref.shape) if ref.size\
        else ()
    if np.abs(ref[k]) < 1e-12:
        require(np.allclose(got, 0, **TOL), "C16:" + label,
                lambda: "{}: circuit evaluates to 0 but the ZX diagram to {}"
                .format(detail, np.round(got.flatten(), 6).tolist())[:1200])
        return
    lam = got[k] / ref[k]
    require(abs(lam) > 1e-12 and np.allclose(got, lam * ref, **TOL),
            "C16:" + label, lambda: "{}: ZX denotes {} , circuit evaluates "
            "to {} (not proportional)".format(
                detail, np.round(got.flatten(), 5).tolist(),
                np.round(ref.flatten(), 5).tolist())[:1500])


def excluded_gate(g):
    return g in CONTROLLED_ROT and findings.active(
        "circuit2zx-controlled-rotations", "C16")


@st.composite
def zx_circuits(draw, tier, max_boxes=None):
    big = tier == "thorough"
    n = draw(st.integers(0, 3))
    scan = [["qubit", 0]] * n
    layers = []
    for _ in range(draw(st.integers(1, max_boxes or (10 if big else 7)))):
        qs = list(range(len(scan)))
        adj = qs[:-1]
        opts = ["scalar"]
        if qs:
            opts += ["one", "one", "rot", "rot", "bra"]
        if adj:
            opts += ["two", "two", "rot2", "rot2", "swap"]
        if len(scan) < 4:
            opts += ["ket"]
        kind = draw(st.sampled_from(opts))
        if kind == "one":
            b, off = {"k": "g", "g": draw(st.sampled_from(SUPPORTED1))},\
                draw(st.sampled_from(qs))
        elif kind == "rot":
            b, off = {"k": "g", "g": draw(st.sampled_from(["Rx", "Rz"])),
                      "a": [draw(phases())]}, draw(st.sampled_from(qs))
        elif kind == "two":
            b, off = {"k": "g", "g": draw(st.sampled_from(["CX", "CZ"]))},\
                draw(st.sampled_from(adj))
        elif kind == "rot2":
            g = draw(st.sampled_from(CONTROLLED_ROT))
            if excluded_gate(g):
                continue
            b, off = {"k": "g", "g": g, "a": [draw(phases())]},\
                draw(st.sampled_from(adj))
        elif kind == "swap":
            off = draw(st.sampled_from(adj))
            b = {"k": "swap", "l": ["qubit", 0], "r": ["qubit", 0]}
        elif kind == "ket":
            k = draw(st.integers(1, 4 - len(scan)))
            b, off = {"k": "g", "g": "Ket", "a": draw(st.lists(
                st.integers(0, 1), min_size=k, max_size=k))},\
                draw(st.integers(0, len(scan)))
        elif kind == "bra":
            off = draw(st.sampled_from(qs))
            k = 1
            while off + k - 1 in adj and draw(st.booleans()):
                k += 1   # as many adjacent qubits as are there
            b = {"k": "g", "g": "Bra", "a": draw(st.lists(
                st.integers(0, 1), min_size=k, max_size=k))}
        else:
            b, off = {"k": "g", "g": "scalar", "a": [
                draw(st.integers(-2, 2)), draw(st.integers(-2, 2))],
                "mixed": False}, draw(st.integers(0, len(scan)))
        layers.append([b, off])
        scan = scan[:off] + specs.bcod(b) + scan[off + len(specs.bdom(b)):]
    qspec.jitter(draw, layers)
    return {"cls": "circuit", "dom": [["qubit", 0]] * n, "layers": layers}


@st.composite
def circuit_cases(draw, tier):
    return {"d": draw(zx_circuits(tier))}


def check_circuit(case):
    from discopy.quantum.zx import circuit2zx
    spec = case["d"]
    d = specs.build(spec)
    z = circuit2zx(d)
    specs.well_typed(z, "circuit2zx")
    require(len(z.dom) == len(d.dom) and len(z.cod) == len(d.cod),
            "C16:arity", lambda: "{} : {} -> {}".format(z, z.dom, z.cod))
    got = qsem.zx_eval(c14.zx_spec_of(z))
    ref = qsem.pure_eval(spec)
    proportional(got, ref, "circuit-vs-zx", "{} -> {}".format(
        common.show(d), common.show(z)))
    # also against the library's own pure evaluation
    proportional(got, np.asarray(d.eval().array, dtype=complex),
                 "library-eval-vs-zx", common.show(d))
    # gates rebuilt by a dagger taken before the translation are equal to,
    # but not the same objects as, the module's constants
    back = d.dagger().dagger()
    proportional(qsem.zx_eval(c14.zx_spec_of(circuit2zx(back))), ref,
                 "double-dagger-then-zx", common.show(back))
    dag = d.dagger()
    proportional(qsem.zx_eval(c14.zx_spec_of(circuit2zx(dag))),
                 qsem.pure_eval(specs.spec_dagger(spec)),
                 "dagger-then-zx", common.show(dag))
    gates = [b for b, _ in spec["layers"] if b["k"] == "g"]
    rot = any(g["g"] in ["Rx", "Rz"] + CONTROLLED_ROT
              and g["a"][0] not in (0, 0.5, 1) for g in gates)
    return dict(nt=rot or len(gates) >= 3,
                labels=sorted({g["g"] for g in gates}),
                show="{} -> {}".format(common.show(d, 150),
                                       common.show(z, 150)))


def enum_gates(tier):
    for g in SUPPORTED1 + ["CX", "CZ"]:
        yield {"d": {"cls": "circuit", "dom": specs.bdom({"k": "g", "g": g}),
                     "layers": [[{"k": "g", "g": g}, 0]]}}
    for g in ["Rx", "Rz"] + CONTROLLED_ROT:
        if excluded_gate(g):
            continue
        for k in range(-8, 9):
            b = {"k": "g", "g": g, "a": [k / 8]}
            yield {"d": {"cls": "circuit", "dom": specs.bdom(b),
                         "layers": [[b, 0]]}}
    import itertools
    for bits in [list(t) for n in range(5)
                 for t in itertools.product((0, 1), repeat=n)]:
        for g in ("Ket", "Bra"):
            b = {"k": "g", "g": g, "a": bits}
            yield {"d": {"cls": "circuit", "dom": specs.bdom(b),
                         "layers": [[b, 0]]}}


@st.composite
def dagger_cases(draw, tier):
    return {"d": draw(gen.diagrams("zx", max_boxes=6, max_width=4))}


def check_dagger(case):
    spec = case["d"]
    z = specs.build(spec)
    dag = z.dagger()
    specs.well_typed(dag, "dagger")
    ref = qsem.zx_eval(spec)
    n_in, n_out = len(spec["dom"]), len(specs.spec_cod(spec))
    M = ref.reshape(2 ** n_in, 2 ** n_out)
    got = qsem.zx_eval(c14.zx_spec_of(dag)).reshape(2 ** n_out, 2 ** n_in)
    require(np.allclose(got, M.conj().T, **TOL),
            "C16:dagger-is-conjugate-transpose", lambda: "{} : {} vs {}"
            .format(common.show(z), np.round(got, 5).tolist(),
                    np.round(M.conj().T, 5).tolist())[:1500])
    # reading back the diagram itself reproduces the spec's denotation
    back = qsem.zx_eval(c14.zx_spec_of(z))
    require(np.allclose(back.reshape(ref.shape), ref, **TOL),
            "C16:readback", common.show(z))
    phases_ = [b.get("ph") for b, _ in spec["layers"] if b["k"] == "zx"
               and b["g"] in ("Z", "X")]
    return dict(nt=any(p not in (0, 0.5, 1, None) for p in phases_)
                and len(spec["layers"]) >= 2, labels=["zx"],
                show=common.show(z, 200))


def selftest():
    """ O8 on CX = Z(1,2) @ Id >> Id @ X(2,1) up to sqrt(2). """
    spec = {"cls": "zx", "dom": [[1, 0]] * 2, "layers": [
        [{"k": "zx", "g": "Z", "n": [1, 2], "ph": 0}, 0],
        [{"k": "zx", "g": "X", "n": [2, 1], "ph": 0}, 1]]}
    M = qsem.zx_eval(spec).reshape(4, 4)
    cx = np.array([[1, 0, 0, 0], [0, 1, 0, 0], [0, 0, 0, 1], [0, 0, 1, 0]])
    assert np.allclose(M * np.sqrt(2), cx), M


core.register("C16", [
    Facet("gates", None, check_circuit, enum=enum_gates, shards_quick=2,
          rule="every supported gate; rotations and controlled rotations at "
          "17 phases k/8; kets and bras"),
    Facet("circuits", circuit_cases, check_circuit, n_quick=3200,
          shards_quick=8, rule=RULE),
    Facet("dagger", dagger_cases, check_dagger, n_quick=2400, shards_quick=4,
          rule="arbitrary ZX diagrams (Z/X spiders of any arity and phase, "
          "H, SWAP, scalars): O8 of the dagger is the conjugate transpose"),
], selftests=[selftest], rule=RULE, assumptions=[
    "O8: Z(n, m, a) = |0..0><0..0| + exp(2 pi i a) |1..1><1..1|, X its "
    "Hadamard conjugate, phases in full turns",
    "proportionality factor taken at the largest entry; tolerance 1e-9"])
