"""C11 Pure circuits evaluate to the unitary they describe."""
import itertools

import numpy as np
from hypothesis import strategies as st

from harness import core, specs, gen, common, qspec, qsem, findings
from harness.core import Facet, Violation, require

RULE = ("single gates with generated phases against tket's own unitaries; "
        "pure circuits (<= 5 qubits, <= 12 boxes) over named gates, "
        "rotations, controlled rotations, Controlled(g), kets/bras, scalars, "
        "and their daggers against the product of kron-embedded reference "
        "matrices; rewire for all a != b; non-trivial = >= 3 gates on >= 2 "
        "qubits with a phase outside {0, 1/2, 1} or a non-self-adjoint gate")
TOL = dict(atol=1e-9, rtol=1e-9)


def lib_matrix(circuit, n_dom):
    out = circuit.eval()
    arr = np.asarray(out.array, dtype=complex)
    return arr.reshape(2 ** n_dom, -1)


def same(got, ref, label, detail):
    require(got.shape == ref.shape and np.allclose(got, ref, **TOL),
            "C11:" + label, lambda: "{}: got {} expected {}".format(
                detail, np.round(got, 6).tolist(),
                np.round(ref, 6).tolist())[:1500])


# ------------------------------------------------------------------ gates

@st.composite
def gate_cases(draw, tier):
    kind = draw(st.sampled_from(["named", "rot", "rot2", "controlled",
                                 "ketbra", "custom", "scalar"]))
    if kind == "named":
        g = draw(st.sampled_from(qspec.ONE_QUBIT + qspec.TWO_QUBIT))
        b = {"k": "g", "g": g}
    elif kind == "rot":
        b = {"k": "g", "g": draw(st.sampled_from(qspec.ROT1)),
             "a": [draw(phases())]}
    elif kind == "rot2":
        b = {"k": "g", "g": draw(st.sampled_from(qspec.ROT2)),
             "a": [draw(phases())]}
    elif kind == "scalar":
        # pure scalars and square roots, of real and of complex numbers
        re, im = draw(st.integers(-3, 3)), draw(st.integers(-3, 3))
        if draw(st.booleans()):
            b = {"k": "g", "g": "scalar", "a": [re / 2, im / 2],
                 "mixed": False}
        else:
            b = {"k": "g", "g": "sqrt", "a": [[re / 2, im / 2] if im
                                              else abs(re) / 2 + 0.5]}
    elif kind == "custom":
        b = {"k": "g", "g": "Q", "a": [draw(st.integers(1, 2)),
                                       draw(st.integers(0, 4))]}
    elif kind == "controlled":
        b = {"k": "g", "g": "C", "a": [draw(inner_gates())]}
    else:
        n = draw(st.integers(0, 3))
        b = {"k": "g", "g": draw(st.sampled_from(["Ket", "Bra"])),
             "a": draw(st.lists(st.integers(0, 1), min_size=n, max_size=n))}
    return {"b": b, "dag": draw(st.integers(0, 2))}


def phases():
    return st.one_of(
        st.sampled_from([0, 0.25, -0.25, 0.5, 1, 2, 0.125, -0.75]),
        st.integers(-128, 128).map(lambda k: k / 64),
        st.floats(-2, 2, allow_nan=False).map(lambda x: round(x, 6)))


@st.composite
def inner_gates(draw):
    kind = draw(st.sampled_from(["named", "rot"]))
    if kind == "named":
        b = {"k": "g", "g": draw(st.sampled_from(qspec.ONE_QUBIT))}
        if b["g"] not in qspec.SELF_ADJOINT and draw(st.booleans())\
                and not findings.active("controlled-dagger", "C11"):
            b["dag"] = True
        return b
    return {"k": "g", "g": draw(st.sampled_from(qspec.ROT1)),
            "a": [draw(phases())]}


def check_gate(case):
    b = case["b"]
    spec = {"cls": "circuit", "dom": specs.bdom(b), "layers": [[b, 0]]}
    box = specs.box("circuit", b)
    n = len(spec["dom"])
    ref = qsem.pure_matrix(spec)
    same(lib_matrix(box, n), ref, "gate-vs-tket", repr(box))
    if b["g"] not in ("Ket", "Bra", "scalar", "sqrt"):
        same(ref @ ref.conj().T, np.eye(2 ** n), "reference-unitary",
             repr(box))
    # the dagger (taken 1 or 2 times) is the conjugate transpose
    cur, cur_ref, m = box, ref, n
    for _ in range(case["dag"]):
        cur = cur.dagger()
        cur_ref = cur_ref.conj().T
        m = len(cur.dom)
        same(lib_matrix(cur, m), cur_ref, "dagger-is-conjugate-transpose",
             "{!r} from {!r}".format(cur, box))
    nontrivial = b["g"] in qspec.ROT1 + qspec.ROT2 + ["C"]\
        or b["g"] in ("S", "T", "Y")
    return dict(nt=nontrivial, labels=[b["g"]], show=repr(box))


# ------------------------------------------------------------------ circuits

@st.composite
def circuit_cases(draw, tier):
    big = tier == "thorough"
    n = draw(st.integers(0, 4 if big else 3))
    dom = [["qubit", 0]] * n
    spec = draw(pure_circuits(dom, 12 if big else 8, 5))
    return {"d": spec, "route": draw(st.sampled_from(["ctor", "whisker"])),
            "cut": draw(st.integers(0, len(spec["layers"])))}


@st.composite
def pure_circuits(draw, dom, max_boxes, max_width, unitary_only=False):
    scan = [list(w) for w in dom]
    layers = []
    for _ in range(draw(st.integers(1, max_boxes))):
        b, off = draw(qspec.circuit_layer(scan, max_width, gateset="pure"))
        if b["k"] == "g" and b["g"] == "C":
            b = dict(b, a=[draw(inner_gates())])
        elif b["k"] == "g" and b["g"] in qspec.TWO_QUBIT + qspec.ONE_QUBIT\
                and draw(st.integers(0, 4)) == 0:
            # a user-defined gate in place of a named one
            b = {"k": "g", "g": "Q", "a": [len(specs.bdom(b)),
                                           draw(st.integers(0, 4))]}
            if draw(st.booleans()):
                b["dag"] = True
        if unitary_only and b["k"] == "g" and b["g"] in (
                "Ket", "Bra", "scalar", "sqrt"):
            continue
        layers.append([b, off])
        scan = scan[:off] + specs.bcod(b) + scan[off + len(specs.bdom(b)):]
    qspec.jitter(draw, layers)
    return {"cls": "circuit", "dom": [list(w) for w in dom], "layers": layers}


def check_circuit(case):
    spec = case["d"]
    d = specs.build(spec, case["route"])
    n = len(spec["dom"])
    require(not d.is_mixed, "C11:pure-circuit-reported-mixed", str(d))
    ref = qsem.pure_matrix(spec)
    got = lib_matrix(d, n)
    same(got, ref, "circuit-vs-ordered-product", common.show(d))
    unitary = all(b["k"] == "swap" or b["g"] not in (
        "Ket", "Bra", "scalar", "sqrt") for b, _ in spec["layers"])
    if unitary:
        same(got @ got.conj().T, np.eye(2 ** n), "unitary", common.show(d))
    dag = d.dagger()
    specs.well_typed(dag, "dagger")
    same(lib_matrix(dag, len(specs.spec_cod(spec))), ref.conj().T,
         "dagger-is-conjugate-transpose", common.show(d))
    same(lib_matrix(dag, len(specs.spec_cod(spec))),
         qsem.pure_matrix(specs.spec_dagger(spec)),
         "dagger-vs-reference-dagger", common.show(d))
    i = case["cut"]
    a, b = d[:i], d[i:]
    same(lib_matrix(a, n) @ lib_matrix(b, len(a.cod)), ref,
         "ordered-product-of-parts", common.show(d))
    gates = [b for b, _ in spec["layers"] if b["k"] == "g"]
    interesting = any(
        g["g"] in qspec.ROT1 + qspec.ROT2 and g["a"][0] not in (0, 0.5, 1)
        or g["g"] in ("S", "T", "Y", "C") for g in gates)
    width = max(len(s) for s in specs.scans(spec))
    return dict(nt=len(gates) >= 3 and width >= 2 and interesting,
                labels=sorted({g["g"] for g in gates}) + (
                    ["unitary"] if unitary else []),
                show=common.show(d, 250))


# ------------------------------------------------------------------ rewire

@st.composite
def rewire_cases(draw, tier):
    n = draw(st.integers(2, 5))
    a = draw(st.integers(0, n - 1))
    b = draw(st.integers(0, n - 1).filter(lambda x: x != a))
    kind = draw(st.sampled_from(["gate", "circuit"]))
    if kind == "gate":
        op = {"cls": "circuit", "dom": [["qubit", 0]] * 2, "layers": [[
            draw(st.one_of(
                st.sampled_from(qspec.TWO_QUBIT).map(
                    lambda g: {"k": "g", "g": g}),
                st.tuples(st.sampled_from(qspec.ROT2), phases()).map(
                    lambda t: {"k": "g", "g": t[0], "a": [t[1]]}))), 0]]}
    else:
        op = draw(pure_circuits([["qubit", 0]] * 2, 4, 2, unitary_only=True))
    return {"op": op, "a": a, "b": b, "n": n,
            "explicit_dom": draw(st.booleans())}


def check_rewire(case):
    from discopy.quantum.gates import rewire
    from discopy.quantum.circuit import qubit
    op_spec, a, b, n = case["op"], case["a"], case["b"], case["n"]
    if not op_spec["layers"] or len(specs.spec_cod(op_spec)) != 2:
        return dict(nt=False, labels=["n/a"])
    op = specs.build(op_spec)
    if case["explicit_dom"]:
        out = rewire(op, a, b, dom=qubit ** n)
    else:
        n = max(a, b) + 1
        out = rewire(op, a, b)
    specs.well_typed(out, "rewire")
    require(len(out.dom) == n and len(out.cod) == n, "C11:rewire-arity",
            str(out))
    U = qsem.pure_matrix(op_spec).reshape((2,) * 4)   # [i0, i1, o0, o1]
    # embed: input qubit a -> i0, input qubit b -> i1
    ref = np.zeros((2,) * (2 * n), dtype=complex)
    for ins in itertools.product((0, 1), repeat=n):
        for o0, o1 in itertools.product((0, 1), repeat=2):
            outs = list(ins)
            outs[a], outs[b] = o0, o1
            ref[tuple(ins) + tuple(outs)] += U[ins[a], ins[b], o0, o1]
    same(lib_matrix(out, n), ref.reshape(2 ** n, 2 ** n),
         "rewire", "rewire({}, {}, {}, n={})".format(op, a, b, n))
    if len(op_spec["layers"]) == 1 and len(op.boxes[0].dom) == 2:
        # the gate itself (a box, as in rewire(CX, 2, 0)), not the one-box
        # circuit around it
        gate = op.boxes[0]
        bare = rewire(gate, a, b, dom=qubit ** n) if case["explicit_dom"]\
            else rewire(gate, a, b)
        specs.well_typed(bare, "rewire")
        same(lib_matrix(bare, n), ref.reshape(2 ** n, 2 ** n), "rewire",
             "rewire({!r}, {}, {}, n={})".format(gate, a, b, n))
    return dict(nt=abs(a - b) != 1 or a > b, labels=[
        "adjacent" if abs(a - b) == 1 else "distant",
        "reversed" if a > b else "ordered"],
        show="rewire({}, {}, {})".format(common.show(op, 80), a, b))


def selftest():
    """ Layout convention pinned on asymmetric gates. """
    cx = qsem.gate_matrix({"k": "g", "g": "CX"})
    assert np.allclose(cx, [[1, 0, 0, 0], [0, 1, 0, 0], [0, 0, 0, 1],
                            [0, 0, 1, 0]])
    rz = qsem.gate_matrix({"k": "g", "g": "Rz", "a": [0.25]})
    assert np.allclose(rz, np.diag([np.exp(-1j * np.pi / 4),
                                    np.exp(1j * np.pi / 4)]))
    spec = {"cls": "circuit", "dom": [], "layers": [
        [{"k": "g", "g": "Ket", "a": [1, 0]}, 0], [{"k": "g", "g": "CX"}, 0]]}
    assert np.allclose(qsem.pure_matrix(spec), [[0, 0, 0, 1]])


core.register("C11", [
    Facet("gates", gate_cases, check_gate, n_quick=1200, shards_quick=4,
          rule="single gates vs tket unitaries; daggers taken 0-2 times"),
    Facet("circuits", circuit_cases, check_circuit, n_quick=1000,
          shards_quick=8, rule=RULE),
    Facet("rewire", rewire_cases, check_rewire, n_quick=800, shards_quick=4,
          rule="rewire(op, a, b[, dom]) for two-qubit gates / circuits, all "
          "a != b < n <= 5; non-trivial = non-adjacent or reversed"),
], selftests=[selftest], rule=RULE, assumptions=[
    "literal reading: the evaluated array reshaped to 2^n x 2^n (leftmost "
    "qubit most significant) equals tket's unitary; products are taken in "
    "diagram order (rows = domain)", "tolerance atol = rtol = 1e-9",
    "tket's Op.get_unitary() is the trusted reference for named operations"])
