"""C20 The drawing layout is a faithful planar embedding of the diagram."""
import os
import re
import tempfile
import collections

from hypothesis import strategies as st

from harness import core, specs, gen, common, classes, qspec  # noqa: F401
from harness.core import Facet, Violation, require

RULE = ("monoidal / rigid diagrams with boxes of any arity (scalars, states, "
        "effects, wide boxes above narrow gaps and vice versa), swaps, cups "
        "and caps, depth <= 10, width <= 6: node census, edge set = wiring, "
        "every edge downwards, wires vertical, open wires strictly increasing "
        "in x at every height, every box strictly between its neighbouring "
        "wires; non-trivial = some padding was needed (a box wider than the "
        "gap it is drawn in) and depth >= 3")


def nkey(node):
    """ Payload-free identity of a drawing node (diagram2nx downgrades the
    boxes, so the box objects differ from the diagram's own). """
    return (node.kind, getattr(node, "depth", None), getattr(node, "i", None))


def layout_checks(d, spec=None, structure=None):
    """ structure: the diagram whose boxes the drawing shows (a diagram with
    bubbles is drawn as its opened form). """
    from discopy.drawing import diagram2nx
    graph, raw_pos = diagram2nx(d)
    d = structure if structure is not None else d
    kinds = collections.Counter(n.kind for n in graph.nodes)
    boxes, offsets = d.boxes, d.offsets
    expected = {"input": len(d.dom), "output": len(d.cod), "box": len(boxes),
                "dom": sum(len(b.dom) for b in boxes),
                "cod": sum(len(b.cod) for b in boxes)}
    require({k: kinds.get(k, 0) for k in expected} == expected
            and set(kinds) <= set(expected), "C20:node-census",
            lambda: "{} vs {} for {}".format(dict(kinds), expected, d))
    require(set(raw_pos) == set(graph.nodes), "C20:positions-missing", str(d))
    keys = [nkey(n) for n in graph.nodes]
    require(len(set(keys)) == len(keys), "C20:duplicate-nodes", str(d))
    pos = {nkey(n): p for n, p in raw_pos.items()}
    got_edges = {(nkey(s), nkey(t)) for s, t in graph.edges}
    # the edge set reproduces the wiring (independent scan)
    scan = [("input", None, i) for i in range(len(d.dom))]
    edges = set()
    heights = []
    for depth, (bx, off) in enumerate(zip(boxes, offsets)):
        node = ("box", depth, None)
        opening = getattr(bx, "bubble_opening", False)
        closing = getattr(bx, "bubble_closing", False)
        nd, nc = len(bx.dom), len(bx.cod)
        for i in range(nd):
            port = ("dom", depth, i)
            edges.add((scan[off + i], port))
            # the frame of a bubble is drawn by its two outermost wires only,
            # the wires going through it join dom and cod ports directly
            if not (opening or closing) or closing and i in (0, nd - 1):
                edges.add((port, node))
            if opening:
                edges.add((port, ("cod", depth, i + 1)))
        outs = []
        for i in range(nc):
            port = ("cod", depth, i)
            if not (opening or closing) or opening and i in (0, nc - 1):
                edges.add((node, port))
            if closing:
                edges.add((("dom", depth, i + 1), port))
            outs.append(port)
        heights.append((depth, node, off, list(scan), outs))
        scan = scan[:off] + outs + scan[off + len(bx.dom):]
    for i in range(len(d.cod)):
        edges.add((scan[i], ("output", None, i)))
    require(got_edges == edges, "C20:edges-vs-wiring",
            lambda: "extra {} missing {} in {}".format(
                sorted(map(str, got_edges - edges))[:4],
                sorted(map(str, edges - got_edges))[:4], d))
    for s, t in got_edges:
        require(pos[s][1] > pos[t][1], "C20:edge-not-downwards",
                lambda: "{} -> {} at {} {} in {}".format(
                    s, t, pos[s], pos[t], d))
        if s[0] in ("input", "cod") and t[0] in ("dom", "output"):
            require(pos[s][0] == pos[t][0], "C20:wire-not-vertical",
                    lambda: "{} -> {} at {} {} in {}".format(
                        s, t, pos[s], pos[t], d))

    def increasing(nodes, what):
        xs = [pos[n][0] for n in nodes]
        require(all(a < b for a, b in zip(xs, xs[1:])),
                "C20:wires-not-increasing", lambda: "{}: {} in {}".format(
                    what, xs, d))
    increasing([("input", None, i) for i in range(len(d.dom))], "inputs")
    padded = False
    for depth, node, off, before, outs in heights:
        bx = boxes[depth]
        nd = len(bx.dom)
        left = before[off - 1] if off > 0 else None
        right = before[off + nd] if off + nd < len(before) else None
        for port in [node] + outs + [("dom", depth, i) for i in range(nd)]:
            if left is not None:
                require(pos[left][0] < pos[port][0], "C20:box-overlaps-left",
                        lambda: "{} of box {} at {} vs wire at {} in {}"
                        .format(port[0], depth, pos[port], pos[left], d))
            if right is not None:
                require(pos[port][0] < pos[right][0],
                        "C20:box-overlaps-right",
                        lambda: "{} of box {} at {} vs wire at {} in {}"
                        .format(port[0], depth, pos[port], pos[right], d))
        after = before[:off] + outs + before[off + nd:]
        increasing(after, "after box {}".format(depth))
        if len(bx.cod) > max(nd, 1) and (left is not None
                                         or right is not None):
            padded = True
    return padded


@st.composite
def layout_cases(draw, tier):
    cls = draw(st.sampled_from(["monoidal", "rigid"]))
    spec = draw(gen.diagrams(cls, max_boxes=10 if tier == "thorough" else 8,
                             max_width=draw(st.sampled_from([6, 9])),
                             max_dom=4, names=["a", "b"],
                             max_arity=draw(st.sampled_from([3, 5]))))
    return {"d": spec, "bubble": draw(st.one_of(st.none(), st.lists(
        st.integers(0, 10), min_size=2, max_size=2)))}


def check_layout(case):
    spec = case["d"]
    d = specs.build(spec)
    if not len(d) and not len(d.dom):
        return dict(nt=False, labels=["empty"])
    padded = layout_checks(d, spec)
    labels = ["boxes%d" % min(len(spec["layers"]), 8)]
    cut = case.get("bubble")
    if cut is not None and len(d):
        # part of the diagram inside a bubble: drawn as the opened bubble
        i, j = sorted(c % (len(d) + 1) for c in cut)
        if i < j:
            b = d[:i] >> d[i:j].bubble() >> d[j:]
            layout_checks(b, structure=b.open_bubbles())
            labels.append("bubble")
            # bubbles declared with another domain or codomain than their
            # inside (fewer wires, more wires, none at all)
            inner = d[i:j]
            for kw in ({"cod": inner.cod[:1]}, {"cod": inner.cod @ inner.cod},
                       {"cod": inner.cod[:0]}, {"dom": inner.dom[:1]},
                       {"dom": inner.dom @ inner.dom[:1]},
                       {"dom": inner.dom[:0], "cod": inner.cod[:0]}):
                if cut[1] % 2 and all(len(t) == len(getattr(inner, k))
                                      for k, t in kw.items()):
                    continue
                b = inner.bubble(**kw)
                layout_checks(b, structure=b.open_bubbles())
            labels.append("retyped-bubble")
        # a bubble around one box and some of the wires next to it, with
        # other wires passing by on either side
        k = cut[0] % len(d)
        left, box, right = d.layers[k]
        a, c = cut[1] % (len(left) + 1), cut[0] % (len(right) + 1)
        inner = d.id(left[a:]) @ box @ d.id(right[:c])
        b = d[:k] >> d.id(left[:a]) @ inner.bubble() @ d.id(right[c:])\
            >> d[k + 1:]
        layout_checks(b, structure=b.open_bubbles())
        labels.append("partial-bubble")
    return dict(nt=padded and len(spec["layers"]) >= 3, labels=labels,
                show=common.show(d, 200))


# ------------------------------------------------------------------ rendering

@st.composite
def render_cases(draw, tier):
    cls = draw(st.sampled_from(["monoidal", "rigid", "circuit", "tensor",
                                "zx"]))
    spec = draw(gen.diagrams(cls, max_boxes=5, max_width=4))
    return {"d": spec, "bubble": draw(st.booleans()),
            "labels": draw(st.booleans())}


def check_render(case):
    spec = case["d"]
    cls = spec["cls"]
    d = specs.build(spec)
    if case["bubble"] and cls in ("monoidal", "rigid") and len(d):
        d = d.bubble() >> d.id(d.cod) if True else d
    if not len(d) and not len(d.dom):
        return dict(nt=False, labels=["empty"])
    with tempfile.TemporaryDirectory(prefix="verif-c20-") as tmp:
        tikz = os.path.join(tmp, "d.tikz")
        png = os.path.join(tmp, "d.png")
        d.draw(to_tikz=True, path=tikz, show=False,
               draw_type_labels=case["labels"])
        d.draw(path=png, show=False, draw_type_labels=case["labels"])
        import matplotlib.pyplot as plt
        plt.close("all")
        text = open(tikz).read()
        require(os.path.getsize(png) > 0, "C20:empty-image", str(d))
        # the picture is a function of the diagram and of the drawing
        # attributes of its boxes, not of what was drawn before: flip an
        # attribute on one of the boxes (the idiom `box.draw_as_spider =
        # True`) and draw again; a fresh copy of the diagram with the same
        # attribute set before any drawing gives the same TikZ source
        plain = [k for k, (b, _) in enumerate(spec["layers"])
                 if b["k"] == "box"]
        if plain and not case["bubble"] and cls in ("monoidal", "rigid"):
            k = plain[len(spec["layers"]) % len(plain)]
            fresh = specs.build(spec)
            for diagram, name in ((d, "again"), (fresh, "fresh")):
                diagram.boxes[k].draw_as_spider = True
                diagram.draw(to_tikz=True, show=False,
                             path=os.path.join(tmp, name + ".tikz"),
                             draw_type_labels=case["labels"])
                diagram.draw(path=os.path.join(tmp, name + ".png"),
                             show=False, draw_type_labels=case["labels"])
                plt.close("all")
            again, first = (open(os.path.join(tmp, n + ".tikz")).read()
                            for n in ("again", "fresh"))
            require(again == first, "C20:picture-depends-on-earlier-drawing",
                    lambda: "box {} of {} as a spider".format(k, d))
    for env in ("tikzpicture", "pgfonlayer"):
        require(text.count("\\begin{%s}" % env) == text.count(
            "\\end{%s}" % env) >= 1, "C20:tikz-environments",
            lambda: text[:300])
    require(len(re.findall(r"\\node ", text)) >= 1, "C20:tikz-nodes",
            lambda: text[:300])
    return dict(nt=len(spec["layers"]) >= 2, labels=[cls],
                show=common.show(d, 150))


def enum_circuit_boxes(tier):
    """ Every variant of the circuit boxes that have a drawing routine of
    their own (measurements, encodings, discards and mixed states over every
    mix of wires, kets, bras, bits, copies, controlled gates, swaps). """
    from harness.props.c12 import box_variants
    for b in box_variants():
        yield {"b": b}
    for t in (["qubit", "qubit", "bit"], ["bit", "bit", "qubit"],
              ["bit", "qubit", "bit"]):
        yield {"b": {"k": "g", "g": "Discard", "a": t}}
        yield {"b": {"k": "g", "g": "MixedState", "a": t}}
    for g in ("X", "Z", "H", "Y", "S"):
        yield {"b": {"k": "g", "g": "C", "a": [{"k": "g", "g": g}]}}
    for g in ("CX", "CZ"):
        yield {"b": {"k": "g", "g": g}}


def check_circuit_box(case):
    from harness import qspec  # noqa: F401 (registers the circuit class)
    b = case["b"]
    spec = {"cls": "circuit", "dom": specs.bdom(b), "layers": [[b, 0]]}
    d = specs.build(spec)
    wide = d.id(d.dom[:1]) @ d @ d.id(d.cod[:1]) if (d.dom or d.cod) else d
    for what, diagram in (("alone", d), ("between wires", wide)):
        if not len(diagram.dom) and not len(diagram.cod)\
                and not len(diagram):
            continue
        with tempfile.TemporaryDirectory(prefix="verif-c20-") as tmp:
            diagram.draw(to_tikz=True, path=os.path.join(tmp, "d.tikz"),
                         show=False)
            diagram.draw(path=os.path.join(tmp, "d.png"), show=False)
            import matplotlib.pyplot as plt
            plt.close("all")
            require(os.path.getsize(os.path.join(tmp, "d.png")) > 0
                    and "\\begin{tikzpicture}" in open(
                        os.path.join(tmp, "d.tikz")).read(),
                    "C20:empty-image", "{} {}".format(d, what))
        layout_checks(diagram)
    return dict(nt=len(d.dom) + len(d.cod) >= 2, labels=[b.get("g", b["k"])],
                show=common.show(d, 100))


# ------------------------------------------------------------------ diagramize

@st.composite
def diagramize_cases(draw, tier):
    cls = draw(st.sampled_from(["monoidal", "rigid"]))
    spec = draw(gen.diagrams(cls, max_boxes=6, max_width=5, min_boxes=1,
                             names=["a", "b"], max_dom=3))
    return {"d": spec}


def check_diagramize(case):
    """ Interpret the diagram as a function body that applies the boxes to
    the current wires in planar order; the declared diagram must be == the
    original. """
    from discopy.drawing import diagramize
    spec = case["d"]
    cls = spec["cls"]
    d = specs.build(spec)
    boxes, offsets = d.boxes, d.offsets
    # the call syntax attaches to the box object: use distinct objects
    if len(set(map(id, boxes))) != len(boxes):
        return dict(nt=False, labels=["shared-box-object"])

    def body(*inputs):
        scan = list(inputs)
        for bx, off in zip(boxes, offsets):
            args = scan[off:off + len(bx.dom)]
            out = bx(*args) if args else bx(offset=off)
            outs = list(out) if isinstance(out, tuple) else (
                [out] if len(bx.cod) == 1 else [])
            scan = scan[:off] + outs + scan[off + len(bx.dom):]
        return tuple(scan) if len(scan) != 1 else scan[0]
    unique = []
    for bx in boxes:
        if not any(bx is u for u in unique):
            unique.append(bx)
    m = specs.mod(cls)
    result = diagramize(dom=d.dom, cod=d.cod, boxes=unique,
                        id_factory=m.Id)(body)
    specs.well_typed(result, "diagramize")
    require(bool(result == d) and specs.dkey(result) == specs.dkey(d),
            "C20:diagramize", lambda: "{} declared, {} built".format(
                d, result))
    return dict(nt=len(boxes) >= 3 and any(not len(b.dom) for b in boxes),
                labels=[cls], show=common.show(d, 200))


core.register("C20", [
    Facet("layout", layout_cases, check_layout, n_quick=3000,
          shards_quick=4, rule=RULE),
    Facet("rendering", render_cases, check_render, n_quick=96,
          shards_quick=8, rule="matplotlib (Agg) and TikZ back-ends render "
          "generated monoidal, rigid, circuit, tensor and ZX diagrams (with "
          "bubbles, special circuit boxes, spiders) without error; TikZ "
          "environments balanced"),
    Facet("circuit_boxes", None, check_circuit_box, enum=enum_circuit_boxes,
          shards_quick=8, rule="every variant of the circuit boxes with a "
          "drawing routine of their own, alone and between two wires, through "
          "both back-ends and the layout oracle"),
    Facet("diagramize", diagramize_cases, check_diagramize, n_quick=1000,
          shards_quick=2, rule="a generated diagram re-declared with the "
          "function-call syntax (boxes applied to the current wires in "
          "planar order, offset= for boxes without inputs) equals the "
          "original"),
], rule=RULE, assumptions=[
    "the layout is read from drawing.diagram2nx; coordinates compared "
    "exactly (strict inequalities)"])
