"""C03 Equality is structural, hash-consistent and printable (cat, monoidal,
rigid)."""
from hypothesis import strategies as st

from harness import core, specs, gen, common, classes  # noqa: F401
from harness.core import Facet, Violation, require

CLASSES = ["cat", "monoidal", "rigid"]
RULE = ("pairs of specs built by two routes (constructor, whiskering, slicing "
        "a longer diagram) and single-field / global-rename mutants; names "
        "with quotes and unicode, ints; data payloads None/ints/non-integral "
        "floats/lists/dicts; non-trivial = the pair differs in exactly one "
        "mutation or is equal by different routes and the diagram has an "
        "adjoint type, a daggered box or a data payload")

NAMES = st.one_of(
    st.sampled_from(gen.BOXNAMES), st.sampled_from(gen.BOXNAMES),
    st.text(alphabet="ab'\"\\ é∘", min_size=1, max_size=3),
    st.integers(0, 3))


def canon_box(b, word=True):
    k = b["k"]
    if k == "box":
        return ("box", b["name"], specs.skey_ty(b["dom"]),
                specs.skey_ty(b["cod"]), bool(b.get("dag")), b.get("data"),
                bool(b.get("word")) and word)
    return (k, tuple(b["l"]), tuple(b["r"]))


def canon(spec, word=True):
    if "terms" in spec:
        return ("sum", specs.skey_ty(spec["dom"]), specs.skey_ty(spec["cod"]),
                [canon(t, word) for t in spec["terms"]])
    return ("diagram", specs.skey_ty(spec["dom"]),
            specs.skey_ty(specs.spec_cod(spec)),
            [(canon_box(b, word), off) for b, off in spec["layers"]])


def model_equal(sa, sb):
    return sa["cls"] == sb["cls"] and canon(sa) == canon(sb)


def ordered(x):
    """ A payload with the order of its dictionary keys made visible. """
    if isinstance(x, dict):
        return ("dict", [(k, ordered(v)) for k, v in x.items()])
    if isinstance(x, (list, tuple)):
        return ("list", [ordered(v) for v in x])
    return x


def dict_order_differs(sa, sb):
    """ Equal payloads whose dictionaries list their keys in another order
    (Python dictionaries are equal whatever their insertion order). """
    return any(a.get("data") == b.get("data")
               and ordered(a.get("data")) != ordered(b.get("data"))
               for (a, _), (b, _) in zip(sa["layers"], sb["layers"])
               if a["k"] == b["k"] == "box")


def word_only(sa, sb):
    """ The two specs differ only in that a box is a grammar Word in one and
    a plain Box with the same name, domain, codomain, data and dagger flag in
    the other. The property leaves open whether these are equal (the library
    says they are); if they are, their hashes have to agree. """
    return sa["cls"] == sb["cls"] and canon(sa) != canon(sb)\
        and canon(sa, False) == canon(sb, False)


def check_word_pair(a, b):
    if lib_eq(a, b):
        require(hash(a) == hash(b), "C03:hash-word-vs-box",
                lambda: "{!r} == {!r} but hashes differ".format(a, b))
    return dict(nt=True, labels=["word-vs-box"],
                show="{!r} vs {!r}".format(a, b)[:400])


def rename(spec, old, new):
    """ Consistently replace the wire (name, z) -> new everywhere. """
    def ob(x):
        return list(new) if list(x) == list(old) else list(x)

    def box(b):
        b = dict(b)
        for key in ("dom", "cod"):
            if key in b:
                b[key] = [ob(x) for x in b[key]]
        for key in ("l", "r"):
            if key in b:
                b[key] = ob(b[key])
        return b
    return dict(spec, dom=[ob(x) for x in spec["dom"]],
                layers=[[box(b), off] for b, off in spec["layers"]])


def shift_z(spec, name, dz):
    def ob(x):
        return [x[0], x[1] + dz] if x[0] == name else list(x)

    def box(b):
        b = dict(b)
        for key in ("dom", "cod"):
            if key in b:
                b[key] = [ob(x) for x in b[key]]
        for key in ("l", "r"):
            if key in b:
                b[key] = ob(b[key])
        return b
    return dict(spec, dom=[ob(x) for x in spec["dom"]],
                layers=[[box(b), off] for b, off in spec["layers"]])


@st.composite
def mutants(draw, spec):
    """ (mutant spec, label): a well-typed spec that differs from `spec` in
    one respect (or is identical when the mutation does not apply). """
    cls = spec["cls"]
    layers = spec["layers"]
    choices = ["same", "same", "rename", "box-name", "data", "dag",
               "offset", "drop", "append"]
    if cls in gen.WORD_CLASSES:
        choices += ["word"]
    if cls == "rigid":
        choices += ["shift-z", "shift-z"]
    kind = draw(st.sampled_from(choices))
    boxes = [i for i, (b, _) in enumerate(layers) if b["k"] == "box"]
    if kind == "rename":
        names = [n for n, _ in spec["dom"]] + [
            n for b, _ in layers for n, _ in specs.bdom(b) + specs.bcod(b)]
        if names:
            old = draw(st.sampled_from(names))
            zs = sorted({z for b, _ in layers for n, z in specs.bdom(b)
                         + specs.bcod(b) if n == old}
                        | {z for n, z in spec["dom"] if n == old})
            out = spec
            for z in zs:
                out = rename(out, [old, z], ["d", z])
            return out, kind
    if kind == "shift-z":
        names = sorted({n for n, _ in spec["dom"]} | {
            n for b, _ in layers for n, _ in specs.bdom(b) + specs.bcod(b)})
        if names:
            return shift_z(spec, draw(st.sampled_from(names)),
                           draw(st.sampled_from([-1, 1]))), kind
    if kind == "word":
        boxes = [i for i in boxes if isinstance(layers[i][0]["name"], str)]
    if kind in ("box-name", "data", "dag", "word") and boxes:
        i = draw(st.sampled_from(boxes))
        b = dict(layers[i][0])
        if kind == "word":
            b["word"] = not b.get("word", False)
        elif kind == "box-name":
            b["name"] = str(draw(NAMES)) if b.get("word") else draw(NAMES)
        elif kind == "data":
            b["data"] = draw(gen.payloads())
        elif b["dom"] == b["cod"]:
            b["dag"] = not b.get("dag", False)
        new = [list(x) for x in layers]
        new[i] = [b, layers[i][1]]
        return dict(spec, layers=new), kind
    if kind == "offset" and cls != "cat":
        sc = specs.scans(spec)
        movable = [i for i, (b, _) in enumerate(layers)
                   if not specs.bdom(b) and not specs.bcod(b) and sc[i]]
        if movable:
            i = draw(st.sampled_from(movable))
            new = [list(x) for x in layers]
            new[i] = [layers[i][0], draw(st.integers(0, len(sc[i])))]
            return dict(spec, layers=new), kind
    if kind == "drop" and layers:
        last = layers[-1][0]
        if specs.bdom(last) == specs.bcod(last):
            return dict(spec, layers=layers[:-1]), kind
    if kind == "append":
        sc = specs.scans(spec)
        if sc[-1]:
            t = sc[-1][:1]
            extra = {"k": "box", "name": draw(NAMES), "dom": t, "cod": t,
                     "dag": False}
            return dict(spec, layers=layers + [[extra, 0]]), kind
    return spec, "same"


def rename_boxes(draw, spec):
    layers = []
    table = {}
    for b, off in spec["layers"]:
        if b["k"] == "box":
            key = (b["name"], str(b["dom"] if not b.get("dag") else b["cod"]))
            if key not in table:
                table[key] = draw(NAMES)
            name = table[key]
            if b.get("word"):   # grammar words are named by strings
                name = str(name)
            b = dict(b, name=name)
        layers.append([b, off])
    return dict(spec, layers=layers)


@st.composite
def pair_cases(draw, tier):
    cls = draw(st.sampled_from(CLASSES))
    spec = draw(gen.diagrams(cls, max_boxes=5, max_width=4, data=True))
    spec = rename_boxes(draw, spec)
    other, label = draw(mutants(spec))
    routes = ["ctor", "whisker", "slice"] if cls != "cat" else\
        ["ctor", "whisker"]
    return {"a": spec, "b": other, "mutation": label,
            "ra": draw(st.sampled_from(routes)),
            "rb": draw(st.sampled_from(routes))}


def lib_eq(x, y):
    r1, r2 = x == y, y == x
    require(isinstance(r1, bool) and isinstance(r2, bool), "C03:eq-not-bool",
            lambda: "{!r} == {!r} gave {!r}".format(x, y, r1))
    require(r1 == r2, "C03:eq-not-symmetric",
            lambda: "{!r} vs {!r}".format(x, y))
    require((x != y) == (not r1), "C03:ne-inconsistent",
            lambda: "{!r} vs {!r}".format(x, y))
    return r1


def check_pair(case):
    sa, sb = case["a"], case["b"]
    a, b = specs.build(sa, case["ra"]), specs.build(sb, case["rb"])
    if word_only(sa, sb):
        return check_word_pair(a, b)
    expected = model_equal(sa, sb)
    got = lib_eq(a, b)
    if expected and got and dict_order_differs(sa, sb):
        require(hash(a) == hash(b), "C03:hash-dict-order",
                lambda: "{!r} == {!r} but hashes differ".format(a, b))
        return dict(nt=True, labels=["dict-order"])
    require(got == expected,
            "C03:eq-vs-structure" + (":equal-values-unequal" if expected
                                     else ":different-values-equal"),
            lambda: "{!r} == {!r} is {} (mutation {})".format(
                a, b, got, case["mutation"]))
    require(lib_eq(a, a) and lib_eq(b, b), "C03:reflexive", "")
    if expected:
        require(hash(a) == hash(b), "C03:hash", lambda: "{!r} / {!r}".format(
            a, b))
        require({a: 1}[b] == 1, "C03:dict-lookup", "")
        require(repr(a) == repr(b), "C03:repr-of-equal-values",
                lambda: "{!r} / {!r}".format(a, b))
    # types and boxes inside
    for x, y in ((a.dom, b.dom), (a.cod, b.cod)):
        exp = specs.tkey(x) == specs.tkey(y)
        require(lib_eq(x, y) == exp, "C03:type-eq", lambda: "{!r} {!r}".format(
            x, y))
        if exp:
            require(hash(x) == hash(y), "C03:type-hash", "")
    rich = any(b_.get("dag") or b_.get("data") is not None
               or any(z for _, z in specs.bdom(b_) + specs.bcod(b_))
               for b_, _ in sa["layers"])
    nt = rich and (case["mutation"] != "same" and not expected
                   or expected and case["ra"] != case["rb"])
    return dict(nt=bool(nt), labels=[sa["cls"], case["mutation"],
                                     "equal" if expected else "different"],
                show="{!r} vs {!r}".format(a, b)[:400])


def namespace(cls):
    """ The module's own namespace; names a module inherits from its parent
    modules without re-exporting them (rigid: Sum, Bubble) are looked up
    there, since repr prints the inherited class's constructor. """
    from discopy import cat, monoidal
    space = {}
    for module in {"cat": [cat], "monoidal": [cat, monoidal],
                   "rigid": [cat, monoidal, specs.mod("rigid")]}[cls]:
        space.update(vars(module))
    if cls == "rigid":
        from discopy.grammar.pregroup import Word
        space["Word"] = Word
    elif cls == "monoidal":
        from discopy.grammar.cfg import Word
        space["Word"] = Word
    return space


@st.composite
def value_cases(draw, tier):
    cls = draw(st.sampled_from(CLASSES))
    spec = rename_boxes(draw, draw(gen.diagrams(
        cls, max_boxes=4, max_width=4, data=True)))
    pool = []
    first = draw(gen.diagrams(cls, pool=pool, max_boxes=3, max_width=3))
    terms = [first] + [draw(gen.diagrams_to(
        cls, first["dom"], specs.spec_cod(first), pool=pool, max_boxes=3,
        max_width=3)) for _ in range(draw(st.integers(0, 2)))]
    return {"d": spec, "terms": terms,
            "route": draw(st.sampled_from(["ctor", "whisker"]))}


def roundtrip(x, cls, what):
    text = repr(x)
    try:
        back = eval(text, namespace(cls))  # noqa: S307 (repr of our own value)
    except Exception as exc:  # noqa
        raise Violation("C03:repr-not-evaluable", "{}: {} raised {}: {}".format(
            what, text, type(exc).__name__, exc))
    require(lib_eq(back, x), "C03:repr-roundtrip", lambda: "{}: {} -> {!r}"
            .format(what, text, back))
    if hasattr(x, "boxes"):
        require(specs.dkey(back) == specs.dkey(x), "C03:repr-roundtrip-keys",
                lambda: "{}: {}".format(what, text))
    else:
        require(specs.tkey(back) == specs.tkey(x), "C03:repr-roundtrip-keys",
                lambda: "{}: {}".format(what, text))
    require(hash(back) == hash(x), "C03:repr-roundtrip-hash", "")


def check_values(case):
    spec = case["d"]
    cls = spec["cls"]
    d = specs.build(spec, case["route"])
    roundtrip(d, cls, "diagram")
    roundtrip(d.dom, cls, "type")
    roundtrip(d.cod, cls, "type")
    if cls != "cat":
        for ob in d.dom.objects + d.cod.objects:
            roundtrip(ob, cls, "object")
    for bx, (b, off) in zip(d.boxes, spec["layers"]):
        roundtrip(bx, cls, "box")
        require(lib_eq(bx, bx), "C03:reflexive", "")
        # a box equals the one-box diagram that wraps it
        if cls == "cat":
            from discopy import cat
            wrapped = cat.Arrow(bx.dom, bx.cod, [bx])
        else:
            wrapped = specs.mod(cls).Diagram(bx.dom, bx.cod, [bx], [0])
        require(lib_eq(bx, wrapped), "C03:box-vs-wrapping-diagram",
                lambda: "{!r}".format(bx))
        require(hash(bx) == hash(wrapped), "C03:box-vs-wrapping-diagram-hash",
                lambda: "{!r}".format(bx))
        require({bx: 1}[wrapped] == 1 and {wrapped: 1}[bx] == 1,
                "C03:box-vs-wrapping-diagram-dict", "")
        if cls != "cat" and len(bx.dom) + len(bx.cod) > 0:
            m = specs.mod(cls)
            whiskered = bx @ m.Id(bx.dom[:1] if len(bx.dom) else bx.cod[:1])
            require(not lib_eq(bx, whiskered), "C03:box-vs-whiskered",
                    lambda: "{!r}".format(bx))
    # values that were hashed before another operation derived a new value
    # from them: the derived value hashes like any equal value
    if cls in ("monoidal", "rigid"):
        hash(d), [hash(bx) for bx in d.boxes]
        low = d.downgrade()
        try:
            fresh = eval(repr(low), namespace("monoidal"))  # noqa: S307
        except Exception:  # noqa
            fresh = None   # e.g. grammar words print their own class
        if fresh is not None and lib_eq(low, fresh):
            require(hash(low) == hash(fresh), "C03:hash-after-downgrade",
                    lambda: "{!r} hashed, downgraded, and compared with the "
                    "equal {!r}".format(d, fresh))
            for x, y in zip(low.boxes, fresh.boxes):
                if lib_eq(x, y):
                    require(hash(x) == hash(y), "C03:hash-after-downgrade",
                            lambda: "{!r} / {!r}".format(x, y))
        flipped = d[::-1]
        again = eval(repr(flipped), namespace(cls))  # noqa: S307
        if lib_eq(flipped, again):
            require(hash(flipped) == hash(again), "C03:hash-after-dagger",
                    lambda: repr(flipped))
    # sums
    terms = [specs.build(t) for t in case["terms"]]
    total = terms[0]
    for t in terms[1:]:
        total = total + t
    wordy = [(i, j) for i in range(len(terms)) for j in range(i)
             if word_only(case["terms"][i], case["terms"][j])]
    for i, j in wordy:
        check_word_pair(terms[i], terms[j])
    if len(terms) > 1 and not wordy:
        roundtrip(total, cls, "sum")
        swapped = terms[1]
        for t in [terms[0]] + terms[2:]:
            swapped = swapped + t
        exp = [canon(t) for t in case["terms"]] == [canon(t) for t in [
            case["terms"][1], case["terms"][0]] + case["terms"][2:]]
        require(lib_eq(total, swapped) == exp, "C03:sum-term-order",
                lambda: "{!r} vs {!r}".format(total, swapped))
    # transitivity on three builds of <= 2 distinct specs
    x, y, z = d, specs.build(spec, "ctor"), specs.build(spec, "whisker")
    require(lib_eq(x, y) and lib_eq(y, z) and lib_eq(x, z),
            "C03:transitive", "")
    rich = any(b.get("dag") or b.get("data") is not None
               or any(zz for _, zz in specs.bdom(b) + specs.bcod(b))
               for b, _ in spec["layers"])
    return dict(nt=rich and len(spec["layers"]) >= 2, labels=[cls],
                show=repr(d)[:300])


@st.composite
def functor_cases(draw, tier):
    cls = draw(st.sampled_from(["monoidal", "rigid"]))
    spec = rename_boxes(draw, draw(gen.diagrams(
        cls, max_boxes=5, max_width=4, data=True, kinds=("box", "dagger"))))
    return {"d": spec}


def check_functor_keys(case):
    """ A functor whose mapping is keyed by boxes built one way is applied to
    a diagram whose boxes were built another way. """
    spec = case["d"]
    cls = spec["cls"]
    m = specs.mod(cls)
    d1 = specs.build(spec, "ctor")
    d2 = specs.build(spec, "slice")
    ob = {}
    for t in [d1.dom, d1.cod] + [x for bx in d1.boxes
                                 for x in (bx.dom, bx.cod)]:
        for i in range(len(t)):
            o = t[i:i + 1]
            if cls == "rigid":
                o = m.Ty(o.objects[0].name)
            ob[o] = o
    ar = {}
    for bx in d1.boxes:
        gen_ = bx.dagger() if bx.is_dagger else bx
        ar[gen_] = gen_
    F = m.Functor(ob, ar)
    try:
        image = F(d2)
    except KeyError as exc:
        raise Violation("C03:functor-key-lookup",
                        "KeyError {} applying a functor keyed by equal boxes "
                        "to {!r}".format(exc, d2))
    require(lib_eq(image, d1), "C03:functor-image", lambda: "{!r} vs {!r}"
            .format(image, d1))
    return dict(nt=len(spec["layers"]) >= 2 and any(
        b.get("dag") or b.get("data") is not None for b, _ in spec["layers"]),
        labels=[cls], show=repr(d1)[:300])


@st.composite
def bubble_cases(draw, tier):
    cls = draw(st.sampled_from(CLASSES))
    pool = []
    a = draw(gen.diagrams(cls, pool=pool, max_boxes=3, max_width=3,
                          min_boxes=1))
    b = draw(st.one_of(st.just(a), gen.diagrams_to(
        cls, a["dom"], specs.spec_cod(a), pool=pool, max_boxes=3,
        max_width=3)))
    return {"a": a, "b": b, "typed": draw(st.sampled_from(
        [False, True, "dom", "cod"]))}


def check_bubbles(case):
    sa, sb = case["a"], case["b"]
    cls = sa["cls"]
    a, b = specs.build(sa), specs.build(sb)
    if case["typed"] is True:
        ba, bb = a.bubble(dom=a.cod, cod=a.dom), b.bubble(dom=b.cod, cod=b.dom)
    elif case["typed"] == "dom":    # only one of the two types overridden
        ba, bb = a.bubble(dom=a.cod), b.bubble(dom=b.cod)
    elif case["typed"] == "cod":
        ba, bb = a.bubble(cod=a.dom), b.bubble(cod=b.dom)
    else:
        ba, bb = a.bubble(), b.bubble()
    for x, d, c in ((ba, a.dom, a.cod), (bb, b.dom, b.cod)):
        want = {False: (d, c), True: (c, d), "dom": (c, c),
                "cod": (d, d)}[case["typed"]]
        require(specs.tkey(x.dom) == specs.tkey(want[0])
                and specs.tkey(x.cod) == specs.tkey(want[1]),
                "C03:bubble-types", lambda: "{!r}: {} -> {}".format(
                    x, x.dom, x.cod))
    # the same inside under other types is another bubble, and prints so
    plain = a.bubble()
    if specs.tkey(a.dom) != specs.tkey(a.cod) and case["typed"]:
        require(not lib_eq(ba, plain), "C03:bubble-eq-ignores-types",
                lambda: "{!r} == {!r}".format(ba, plain))
        require(repr(ba) != repr(plain), "C03:repr-not-injective",
                lambda: "{!r} for {} -> {} and for {} -> {}".format(
                    ba, ba.dom, ba.cod, plain.dom, plain.cod))
    if word_only(sa, sb):
        return check_word_pair(ba, bb)
    if model_equal(sa, sb) and dict_order_differs(sa, sb):
        return dict(nt=False, labels=["dict-order"])
    expected = model_equal(sa, sb)
    require(lib_eq(ba, bb) == expected, "C03:bubble-eq-ignores-inside",
            lambda: "{!r} == {!r}".format(ba, bb))
    roundtrip(ba, cls, "bubble")
    # a bubble is a box: it equals the one-box diagram that wraps it, hashes
    # and prints like it, and can replace it as a key
    wrapped = ba.id(ba.dom) >> ba
    if type(wrapped) is not type(ba):
        require(lib_eq(ba, wrapped), "C03:box-vs-one-box-diagram",
                lambda: "{!r} != {!r} (a {})".format(
                    ba, wrapped, type(wrapped).__name__))
        require(hash(ba) == hash(wrapped), "C03:hash", lambda: repr(ba))
        require({ba: 1}.get(wrapped) == 1, "C03:dict-key", lambda: repr(ba))
        roundtrip(wrapped, cls, "one-box diagram of a bubble")
    return dict(nt=not expected or case["typed"], labels=[cls],
                show=repr(ba)[:200])


@st.composite
def tower_cases(draw, tier):
    cls = draw(st.sampled_from(CLASSES))
    x, y = draw(st.sampled_from([(0, 0.0), (1, 1.0), (2, 2.0), (0, False),
                                 (1, True), (-1, -1.0)]))
    where = draw(st.sampled_from(["data", "name", "data-nested",
                                  "dict-order"]))
    return {"cls": cls, "x": x, "y": y, "where": where}


def check_tower(case):
    """ Payloads / names equal across Python's numeric tower: the values are
    ==, so hashes must agree. Kept apart from the structural facets. """
    cls, x, y = case["cls"], case["x"], case["y"]
    t = [["a", 0]]

    def mk(v, first=True):
        b = {"k": "box", "name": "f", "dom": t, "cod": t, "dag": False}
        if case["where"] == "dict-order":
            b["data"] = {"p": 1, "q": x} if first else {"q": x, "p": 1}
        elif case["where"] == "data":
            b["data"] = v
        elif case["where"] == "data-nested":
            b["data"] = [v, {"p": v}]
        else:
            b["name"] = v
        return specs.box(cls, b)
    a, b = mk(x), mk(y, False)
    if not lib_eq(a, b):
        return dict(nt=False, labels=["not-equal"])
    require(hash(a) == hash(b), "C03:hash-dict-order"
            if case["where"] == "dict-order" else "C03:hash-numeric-tower",
            lambda: "{!r} == {!r} but hashes differ".format(a, b))
    return dict(nt=True, labels=[cls, case["where"]],
                show="{!r} vs {!r}".format(a, b))


@st.composite
def type_cases(draw, tier):
    """ Types on their own, with winding numbers up to +-3; one case in two
    has the same winding number on every wire (an iterated adjoint of a plain
    type). """
    cls = draw(st.sampled_from(["monoidal", "rigid", "rigid", "rigid"]))
    names = draw(st.lists(st.sampled_from(["a", "b", "c"]), max_size=4))
    if cls == "rigid":
        if draw(st.booleans()):
            z = draw(st.integers(-3, 3))
            zs = [z] * len(names)
        else:
            zs = [draw(st.integers(-3, 3)) for _ in names]
    else:
        zs = [0] * len(names)
    t = [[n, z] for n, z in zip(names, zs)]
    i = draw(st.integers(0, max(len(t) - 1, 0)))
    return {"cls": cls, "t": t, "i": i}


def check_types(case):
    cls, t = case["cls"], case["t"]
    x, y = specs.ty(cls, t), specs.ty(cls, [list(w) for w in t])
    roundtrip(x, cls, "type")
    require(lib_eq(x, y) and hash(x) == hash(y) and repr(x) == repr(y),
            "C03:type-eq", lambda: "{!r} / {!r}".format(x, y))
    back = eval(repr(x), namespace(cls))  # noqa: S307
    require(specs.tkey(back) == specs.skey_ty(t), "C03:repr-roundtrip-keys",
            lambda: "{!r} evaluates to {!r}".format(x, back))
    if cls == "rigid":
        for adj in (x.r, x.l, x.r.r, x.l.l):
            roundtrip(adj, cls, "adjoint type")
            again = eval(repr(adj), namespace(cls))  # noqa: S307
            require(specs.tkey(again) == specs.tkey(adj),
                    "C03:repr-roundtrip-keys",
                    lambda: "{!r} evaluates to {!r}".format(adj, again))
    if t:   # one leaf changed: a different type
        i = case["i"]
        other = [list(w) for w in t]
        other[i][0] = other[i][0] + "'"
        require(not lib_eq(x, specs.ty(cls, other)), "C03:type-eq",
                lambda: "{!r} == {!r}".format(x, specs.ty(cls, other)))
        if len(t) > 1 and t != t[::-1]:
            require(not lib_eq(x, specs.ty(cls, t[::-1])), "C03:type-eq",
                    lambda: "{!r} equals its reverse".format(x))
    # a type against things that are not types (its own objects, objects
    # named like it, its printed form): equality answers without raising,
    # the same both ways round, and never "equal" with unequal hashes
    if cls != "cat":
        from discopy import cat
        others = [str(x), None, cat.Ob(str(x)), cat.Ob(repr(x))] + [
            w for w in x] + [cat.Ob(w[0]) for w in t]
        for other in others:
            try:
                same = lib_eq(x, other)
            except Violation:
                raise
            except Exception as exc:  # noqa
                raise Violation("C03:eq-raises", "{!r} == {!r} raised {}: {}"
                                .format(x, other, type(exc).__name__, exc))
            if same:
                require(hash(x) == hash(other), "C03:hash",
                        lambda: "{!r} == {!r} with different hashes".format(
                            x, other))
    uniform = len({z for _, z in t}) == 1 and len(t) >= 2 and t[0][1] != 0
    return dict(nt=uniform, labels=[cls, "len%d" % len(t)], show=repr(x))


@st.composite
def sum_cases(draw, tier):
    """ Two formal sums over generated types, the second a one-step mutation
    of the first (or the same): a term dropped, added or moved, the domain or
    the codomain replaced. Empty sums carry nothing but their types. """
    cls = draw(st.sampled_from(CLASSES))
    pool = []
    first = draw(gen.diagrams(cls, pool=pool, max_boxes=2, max_width=3))
    dom, cod = first["dom"], specs.spec_cod(first)
    n = draw(st.sampled_from([0, 0, 1, 2, 3]))
    terms = ([first] + [draw(gen.diagrams_to(
        cls, dom, cod, pool=pool, max_boxes=2, max_width=3))
        for _ in range(n - 1)]) if n else []
    a = {"cls": cls, "dom": dom, "cod": cod, "terms": terms}
    kind = draw(st.sampled_from(["same", "dom", "cod", "drop", "add",
                                 "move"]))
    b = dict(a)
    other = draw(gen.types(cls, 0, 2, gen.CLASS_NAMES.get(cls, gen.NAMES),
                           1 if cls == "rigid" else 0))
    if cls == "cat":
        other = other[:1] or [["c", 0]]
    if kind in ("dom", "cod") and not terms:
        b[kind] = other
    elif kind == "drop" and terms:
        i = draw(st.integers(0, n - 1))
        b["terms"] = terms[:i] + terms[i + 1:]
    elif kind == "add":
        b["terms"] = terms + [draw(gen.diagrams_to(
            cls, dom, cod, pool=pool, max_boxes=2, max_width=3))]
    elif kind == "move" and n >= 2:
        b["terms"] = terms[1:] + terms[:1]
    return {"a": a, "b": b, "mutation": kind}


def build_sum(spec):
    cls = spec["cls"]
    if cls == "cat":
        from discopy import cat
        factory = cat.Arrow.sum
    else:
        factory = specs.mod(cls).Diagram.sum
    return factory([specs.build(t) for t in spec["terms"]],
                   specs.ty(cls, spec["dom"]), specs.ty(cls, spec["cod"]))


def check_sums(case):
    sa, sb = case["a"], case["b"]
    cls = sa["cls"]
    a, b = build_sum(sa), build_sum(sb)
    pairs = list(zip(sa["terms"], sb["terms"]))
    if len(sa["terms"]) == len(sb["terms"]) and any(
            word_only(x, y) for x, y in pairs):
        return dict(nt=False, labels=["word-vs-box"])
    expected = specs.skey_ty(sa["dom"]) == specs.skey_ty(sb["dom"])\
        and specs.skey_ty(sa["cod"]) == specs.skey_ty(sb["cod"])\
        and len(sa["terms"]) == len(sb["terms"])\
        and all(canon(x) == canon(y) for x, y in pairs)
    got = lib_eq(a, b)
    require(got == expected, "C03:sum-eq-vs-structure" + (
        ":equal-values-unequal" if expected else ":different-values-equal"),
        lambda: "{!r} == {!r} is {} (mutation {})".format(
            a, b, got, case["mutation"]))
    require(lib_eq(a, a), "C03:reflexive", "")
    if expected:
        require(hash(a) == hash(b), "C03:hash", lambda: "{!r} / {!r}".format(
            a, b))
        require({a: 1}[b] == 1, "C03:dict-lookup", "")
    roundtrip(a, cls, "sum")
    return dict(nt=not sa["terms"] or case["mutation"] != "same",
                labels=[cls, case["mutation"], "terms%d" % len(sa["terms"]),
                        "equal" if expected else "different"],
                show="{!r} vs {!r}".format(a, b)[:400])


core.register("C03", [
    Facet("pairs", pair_cases, check_pair, n_quick=2400, shards_quick=6,
          rule=RULE),
    Facet("values", value_cases, check_values, n_quick=1200, shards_quick=4,
          rule="generated values: repr round-trip through eval in the "
          "module's namespace, box vs wrapping diagram, sums, transitivity; "
          "non-trivial = >= 2 boxes with an adjoint type, daggered box or "
          "payload"),
    Facet("functor_keys", functor_cases, check_functor_keys, n_quick=600,
          shards_quick=2, rule="functor keyed by constructor-built boxes "
          "applied to slice-built boxes"),
    Facet("types", type_cases, check_types, n_quick=1200, shards_quick=2,
          rule="types with winding numbers up to +-3, their adjoints and "
          "double adjoints: repr evaluates back to the same objects in the "
          "same order; non-trivial = >= 2 wires sharing one non-zero winding "
          "number"),
    Facet("sums", sum_cases, check_sums, n_quick=1200, shards_quick=4,
          rule="pairs of formal sums with 0-3 terms (a term dropped, added or "
          "moved; the types of an empty sum replaced); non-trivial = an "
          "empty sum or a mutated one"),
    Facet("bubbles", bubble_cases, check_bubbles, n_quick=400,
          rule="bubbles of equal / different insides, with and without "
          "explicit dom/cod"),
    Facet("hash_numeric_tower", tower_cases, check_tower, n_quick=120,
          rule="payloads / names equal across int/float/bool"),
], rule=RULE, assumptions=[
    "structural equality of specs uses Python's == on names and payloads",
    "non-empty strings as box data are outside the domain (constructor "
    "recurses forever on them)"])
