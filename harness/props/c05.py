"""C05 Interchange moves exactly one box past a disconnected neighbour."""
import itertools

import numpy as np

from hypothesis import strategies as st

from harness import core, specs, gen, common, classes, qspec  # noqa: F401
from harness.core import Facet, Violation, require

RULE = ("(diagram, i, j, left) drawn by the scanning generator over monoidal/"
        "rigid boxes rich in empty domains/codomains and repeated wire types; "
        "non-trivial = |i-j| >= 1 and the move either succeeds across a box "
        "with an empty domain or codomain or is refused by the model")


def arity_list(d):
    return [(len(b.dom), len(b.cod), off) for b, off in zip(d.boxes, d.offsets)]


def check_adjacent(d, spec, order, i, left, interp):
    """ One adjacent interchange at positions (i, i + 1) of library diagram d
    (whose spec layers are spec['layers'][order[p]] at d.offsets).
    Returns (new diagram or None if refused by model, new order). """
    from discopy.rewriting import InterchangerError
    ars = arity_list(d)
    options = specs.model_swap(ars[i], ars[i + 1])
    if not options:
        for a, b in ((i, i + 1), (i + 1, i)):
            common.expect_raises(
                lambda: d.interchange(a, b, left=left), (InterchangerError,),
                "C05:wired-not-refused",
                "interchange({}, {}, left={}) of {}".format(a, b, left, d))
        return None, order
    try:
        new = d.interchange(i, i + 1, left=left)
        other = d.interchange(i + 1, i, left=left)
    except InterchangerError as exc:
        raise Violation("C05:refused-although-disconnected",
                        "interchange({}, {}, left={}) of {} :: {}".format(
                            i, i + 1, left, d, exc))
    specs.well_typed(new, "interchange result")
    require(specs.tkey(new.dom) == specs.tkey(d.dom)
            and specs.tkey(new.cod) == specs.tkey(d.cod), "C05:dom-cod",
            lambda: "{} -> {}".format(d, new))
    old_boxes, new_boxes = d.boxes, new.boxes
    expected = old_boxes[:i] + [old_boxes[i + 1], old_boxes[i]]\
        + old_boxes[i + 2:]
    require(len(new_boxes) == len(expected)
            and all(x is y for x, y in zip(new_boxes, expected)),
            "C05:boxes-not-permuted", lambda: "{} -> {}".format(d, new))
    new_ars = arity_list(new)
    legal = [ars[:i] + [lo, up] + ars[i + 2:] for lo, up in options]
    require(new_ars in legal, "C05:offsets",
            lambda: "{} -> {} offsets {} not in model options {}".format(
                d, new, new.offsets, [[a[2] for a in x] for x in legal]))
    require(other.offsets == new.offsets and all(
        x is y for x, y in zip(other.boxes, new.boxes)), "C05:i-j-symmetry",
        lambda: "interchange({0},{1}) != interchange({1},{0})".format(i, i + 1))
    perm = list(range(len(ars)))
    perm[i], perm[i + 1] = i + 1, i
    w_old, _ = specs.wiring(len(d.dom), ars)
    w_new, _ = specs.wiring(len(new.dom), new_ars)
    require(specs.relabel(w_old, perm) == w_new, "C05:wiring-changed",
            lambda: "{} -> {}".format(d, new))
    new_order = order[:i] + [order[i + 1], order[i]] + order[i + 2:]
    if interp is not None:
        dims, arrays = interp
        before = specs.ref_eval(
            common.permute_layers(spec, order, d.offsets), dims, arrays)
        after = specs.ref_eval(
            common.permute_layers(spec, new_order, new.offsets), dims, arrays)
        require(common.exact_equal(before, after), "C05:denotation-changed",
                lambda: "{} -> {}".format(d, new))
        if spec["cls"] == "rigid" and all(
                getattr(bx, "data", None) is None for bx in d.boxes):
            # ... and under the library's own tensor functor
            from harness.props import c09
            F = c09.functor_of({"d": spec, "as_dim": False, "callable": False,
                                "lists": False}, dims, arrays)
            lib_before, lib_after = F(d), F(new)
            require(common.exact_equal(
                np.asarray(lib_before.array).reshape(before.shape), before)
                and common.exact_equal(
                    np.asarray(lib_after.array).reshape(after.shape), after),
                "C05:denotation-under-the-library-functor",
                lambda: "{} -> {}".format(d, new))
    return new, new_order


def check_move(spec, i, j, left, interp, route="ctor", parts=None):
    from discopy.rewriting import InterchangerError
    if route == "subs":   # a diagram left behind by a substitution
        d = common.substituted(specs.build(spec))[0]
    elif route == "dagger":   # ... by a dagger (stored differently)
        d = specs.build(specs.spec_dagger(spec))[::-1]
        specs.matches_spec(d, spec, "dagger of the dagger")
    elif route == "tensor":   # ... or by a tensor
        d = specs.build(parts[0]) @ specs.build(parts[1])
        specs.matches_spec(d, spec, "tensor")
    else:
        d = specs.build(spec, route)
    n = len(d)
    labels = []
    in_range = 0 <= i < n and 0 <= j < n
    if not in_range:
        if not (-n <= i < n and -n <= j < n):
            common.expect_raises(
                lambda: d.interchange(i, j, left=left), (IndexError,),
                "C05:out-of-range-not-refused",
                "interchange({}, {}) of {}".format(i, j, d))
            return dict(nt=True, labels=["out-of-range"], show=common.show(d))
        try:
            got = d.interchange(i, j, left=left)
        except IndexError:
            return dict(nt=False, labels=["negative-refused"])
        i, j = i % n, j % n
        ref = d.interchange(i, j, left=left)
        require(got.offsets == ref.offsets and all(
            x is y for x, y in zip(got.boxes, ref.boxes)),
            "C05:negative-index", "")
        labels.append("negative-accepted")
    if i == j:
        same = d.interchange(i, j, left=left)
        require(same.offsets == d.offsets and all(
            x is y for x, y in zip(same.boxes, d.boxes)), "C05:i==j", "")
        return dict(nt=False, labels=["i==j"])
    # fold of adjacent steps, each checked against the model
    cur, order = d, list(range(n))
    steps = [(i + k) for k in range(j - i)] if j > i\
        else [(i - k - 1) for k in range(i - j)]
    refused, crossed_empty = False, False
    for pos in steps:
        ars = arity_list(cur)
        crossed_empty = crossed_empty or 0 in ars[pos][:2] + ars[pos + 1][:2]
        new, order = check_adjacent(cur, spec, order, pos, left, interp)
        if new is None:
            refused = True
            break
        cur = new
    if refused:
        common.expect_raises(
            lambda: d.interchange(i, j, left=left), (InterchangerError,),
            "C05:wired-on-the-way-not-refused",
            "interchange({}, {}, left={}) of {}".format(i, j, left, d))
        labels.append("refused")
    else:
        try:
            got = d.interchange(i, j, left=left)
        except InterchangerError as exc:
            raise Violation("C05:refused-although-disconnected",
                            "interchange({}, {}, left={}) of {} :: {}".format(
                                i, j, left, d, exc))
        specs.well_typed(got, "interchange result")
        moved = d.boxes
        moved.insert(j, moved.pop(i))
        require(len(got.boxes) == n and all(
            x is y for x, y in zip(got.boxes, moved)), "C05:box-i-not-at-j",
            lambda: "interchange({}, {}) of {} gave {}".format(i, j, d, got))
        require(got.offsets == cur.offsets, "C05:compound-vs-steps",
                lambda: "interchange({}, {}) of {} gave offsets {} but the "
                "adjacent steps give {}".format(
                    i, j, d, got.offsets, cur.offsets))
        labels.append("moved")
    labels.append("dist{}".format(min(abs(i - j), 4)))
    if crossed_empty:
        labels.append("crossed-empty-arity")
    return dict(nt=refused or crossed_empty, labels=labels,
                show="({}).interchange({}, {}, left={})".format(
                    common.show(d), i, j, left))


# ------------------------------------------------------------------ facets

@st.composite
def single_cases(draw, tier):
    cls = draw(st.sampled_from(["monoidal", "rigid"]))
    big = tier == "thorough"
    names = draw(st.sampled_from([["a"], ["a", "b"]]))
    spec = draw(gen.diagrams(
        cls, max_boxes=8 if big else 6, max_width=6 if big else 5,
        min_boxes=1, names=names, zmax=1, max_arity=2))
    route = draw(st.sampled_from(["ctor", "whisker", "subs", "tensor",
                                  "slice", "dagger"]))
    parts = None
    if route == "tensor":
        # the diagram is the library's tensor of two diagrams, the right one
        # often an effect (inputs, no outputs) or a state
        kind = draw(st.sampled_from(["effect", "effect", "state", "any"]))
        if kind == "any":
            right = draw(gen.diagrams(cls, max_boxes=2, max_width=3,
                                      names=names, max_arity=2))
        else:
            t = draw(gen.types(cls, 1, 2, names, 1))
            right = {"cls": cls, "dom": t if kind == "effect" else [],
                     "layers": [[{"k": "box", "name": "e", "dag": False,
                                  "dom": t if kind == "effect" else [],
                                  "cod": [] if kind == "effect" else t}, 0]]}
        parts = [spec, right]
        spec = specs.spec_tensor(spec, right)
    n = len(spec["layers"])
    index = st.one_of(st.integers(0, n - 1), st.integers(0, n - 1),
                      st.integers(0, n - 1), st.integers(-n - 2, n + 2))
    i, j = draw(index), draw(index)
    interp = draw(gen.interpretations([spec], max_dim=2))
    return {"d": spec, "i": i, "j": j, "left": draw(st.booleans()),
            "interp": interp, "route": route, "parts": parts}


def check_single(case):
    return check_move(case["d"], case["i"], case["j"], case["left"],
                      common.arrays_of(case["interp"]), case["route"],
                      case.get("parts"))


@st.composite
def subclass_cases(draw, tier):
    """ The same requests on the diagram classes built on monoidal diagrams
    (tensor, circuit, zx), scalar boxes included. """
    cls = draw(st.sampled_from(["tensor", "circuit", "zx"]))
    spec = draw(gen.diagrams(cls, max_boxes=6, max_width=4, min_boxes=2))
    n = len(spec["layers"])
    return {"d": spec, "i": draw(st.integers(0, n - 1)),
            "j": draw(st.integers(0, n - 1)), "left": draw(st.booleans())}


def check_subclass(case):
    info = check_move(case["d"], case["i"], case["j"], case["left"], None)
    info["labels"] = [case["d"]["cls"]] + list(info.get("labels", ()))
    return info


@st.composite
def composite_cases(draw, tier):
    cls = draw(st.sampled_from(["monoidal", "rigid"]))
    spec = draw(gen.diagrams(cls, max_boxes=6, max_width=4, min_boxes=2,
                             names=["a", "b"], max_arity=2))
    n = len(spec["layers"])
    return {"d": spec, "i": draw(st.integers(0, n)),
            "j": draw(st.integers(0, n)), "left": draw(st.booleans())}


def check_composite(case):
    """ Diagrams whose boxes are themselves diagrams (the slices of a
    foliation): a move is refused with an interchanger error exactly when the
    model says the two slices share a wire, and otherwise permutes them. """
    from discopy.rewriting import InterchangerError
    d = specs.build(case["d"]).foliation()
    n = len(d)
    i, j, left = case["i"] % max(n, 1), case["j"] % max(n, 1), case["left"]
    if n < 2 or abs(i - j) != 1:
        return dict(nt=False, labels=["n/a"])
    lo = min(i, j)
    ars = arity_list(d)
    options = specs.model_swap(ars[lo], ars[lo + 1])
    if not options:
        common.expect_raises(
            lambda: d.interchange(i, j, left=left), (InterchangerError,),
            "C05:wired-on-the-way-not-refused",
            "interchange({}, {}, left={}) of the foliation {}".format(
                i, j, left, d))
        return dict(nt=True, labels=["composite-refused"],
                    show=common.show(d))
    new = d.interchange(i, j, left=left)
    specs.well_typed(new, "interchange of slices")
    expected = d.boxes
    expected[lo], expected[lo + 1] = expected[lo + 1], expected[lo]
    require(all(x is y for x, y in zip(new.boxes, expected))
            and specs.tkey(new.dom) == specs.tkey(d.dom)
            and specs.tkey(new.cod) == specs.tkey(d.cod),
            "C05:boxes-not-permuted", lambda: "{} -> {}".format(d, new))
    return dict(nt=True, labels=["composite-moved"], show=common.show(d))


@st.composite
def history_cases(draw, tier):
    cls = draw(st.sampled_from(["monoidal", "rigid"]))
    spec = draw(gen.diagrams(cls, max_boxes=7, max_width=5, min_boxes=2,
                             names=["a", "b"], max_arity=2))
    n = len(spec["layers"])
    moves = draw(st.lists(st.tuples(
        st.integers(0, n - 1), st.integers(0, n - 1), st.booleans()),
        min_size=2, max_size=10))
    interp = draw(gen.interpretations([spec], max_dim=2))
    return {"d": spec, "moves": [list(m) for m in moves], "interp": interp}


def check_history(case):
    """ A history of interchanges: after every successful move the current
    diagram replaces the previous one; each move is checked by check_move on
    the spec of the current diagram. """
    spec = case["d"]
    interp = common.arrays_of(case["interp"])
    moved = refused = 0
    for i, j, left in case["moves"]:
        info = check_move(spec, i, j, left, interp)
        if "moved" in info["labels"]:
            d = specs.build(spec).interchange(i, j, left=left)
            order = list(range(len(spec["layers"])))
            order.insert(j, order.pop(i))
            spec = common.permute_layers(spec, order, d.offsets)
            moved += 1
        elif "refused" in info["labels"]:
            refused += 1
    return dict(nt=moved >= 2 and refused >= 1,
                labels=["moves{}".format(min(moved, 5))],
                show="{} then {}".format(
                    common.show(specs.build(case["d"])), case["moves"]))


def small_diagrams(max_boxes=3, max_arity=2, max_width=3):
    """ All diagrams with <= max_boxes boxes, arities <= max_arity, width <=
    max_width over one wire type. Box k is named f{k}. """
    def extend(width, layers):
        yield width, layers
        if len(layers) == max_boxes:
            return
        for nd in range(min(max_arity, width) + 1):
            for nc in range(max_arity + 1):
                if width - nd + nc > max_width:
                    continue
                for off in range(width - nd + 1):
                    yield from extend(
                        width - nd + nc, layers + [(nd, nc, off)])
    for dom in range(max_width + 1):
        for _, layers in extend(dom, []):
            if layers:
                yield dom, layers


def enum_cases(tier):
    shapes = small_diagrams(4, 2, 3) if tier == "thorough"\
        else small_diagrams()
    for dom, layers in shapes:
        spec = {"cls": "monoidal", "dom": [["a", 0]] * dom, "layers": [
            [{"k": "box", "name": "f%d" % k, "dom": [["a", 0]] * nd,
              "cod": [["a", 0]] * nc, "dag": False}, off]
            for k, (nd, nc, off) in enumerate(layers)]}
        n = len(layers)
        for i, j, left in itertools.product(
                range(n), range(n), (False, True)):
            if i != j:
                yield {"d": spec, "i": i, "j": j, "left": left}


def check_enum(case):
    return check_move(case["d"], case["i"], case["j"], case["left"], None)


def selftest_model():
    """ Every model option preserves the wiring graph (all small diagrams);
    the reference evaluator agrees on a hand-computed example. """
    count = 0
    for dom, layers in small_diagrams(3, 2, 3):
        for i in range(len(layers) - 1):
            for lo, up in specs.model_swap(layers[i], layers[i + 1]):
                new = layers[:i] + [lo, up] + layers[i + 2:]
                perm = list(range(len(layers)))
                perm[i], perm[i + 1] = i + 1, i
                w0, n0 = specs.wiring(dom, layers)
                w1, n1 = specs.wiring(dom, new)
                assert n0 == n1 and specs.relabel(w0, perm) == w1
                count += 1
    assert count > 1000
    import numpy as np
    spec = {"cls": "monoidal", "dom": [["a", 0], ["b", 0]], "layers": [
        [{"k": "swap", "l": ["a", 0], "r": ["b", 0]}, 0],
        [{"k": "box", "name": "f", "dom": [["b", 0]], "cod": [], "dag": False},
         0]]}
    arr = {("f", (("b", 0),), ()): np.array([1, 2, 3])}
    out = specs.ref_eval(spec, {"a": 2, "b": 3}, arr)
    exp = np.zeros((2, 3, 2), dtype=int)
    for a in range(2):
        for b in range(3):
            exp[a, b, a] = b + 1
    assert np.array_equal(out, exp)


core.register("C05", [
    Facet("subclasses", subclass_cases, check_subclass, n_quick=1500,
          shards_quick=4, rule="single and multi-step moves in tensor, "
          "circuit and zx diagrams (with scalar boxes): same oracle, no "
          "functor"),
    Facet("composite_boxes", composite_cases, check_composite, n_quick=600,
          shards_quick=2, rule="adjacent moves on foliations (boxes that are "
          "diagrams): refused with InterchangerError exactly when the slices "
          "share a wire"),
    Facet("single", single_cases, check_single, n_quick=1600, shards_quick=8,
          rule=RULE),
    Facet("history", history_cases, check_history, n_quick=400,
          shards_quick=4, rule="histories of 2-10 interchanges; non-trivial "
          "= >= 2 successful moves and >= 1 refusal"),
    Facet("exhaustive", None, check_enum, enum=enum_cases, shards_quick=12,
          rule="all monoidal diagrams with <= 3 boxes, arities <= 2, width "
          "<= 3 on one wire type, all (i, j, left); non-trivial as above"),
], selftests=[selftest_model], rule=RULE, assumptions=[
    "'wired' is read as 'not planar-disjoint' (model O3)",
    "denotation compared under random Gaussian-integer interpretations with "
    "dimensions 1-2, exactly (no tolerance)",
])
