"""C14 Substituting parameters commutes with evaluation."""
import numpy as np
from hypothesis import strategies as st

from harness import core, specs, gen, common, classes, qspec, qsem, findings
from harness.core import Facet, Violation, require

RULE = ("circuits with symbolic rotation / controlled-rotation phases, "
        "symbolic scalars (pure, mixed, sqrt) and symbolic classical gates "
        "(also daggered), tensor diagrams with sympy entries, ZX diagrams "
        "with symbolic phases and scalars; substitutions as (var, number), "
        "(var, symbol), (var, expression), lists of pairs, full and partial; "
        "non-trivial = >= 2 parametrised boxes sharing a symbol")
TOL = dict(atol=1e-8, rtol=1e-8)
EXPRS = ["x", "y", "2*x", "x + 0.25", "x*y", "x**2", "x/2 + y", "u",
         "u - v", "-x", "x + y + 0.5"]
VALUES = [0.3, -0.7, 1.25, 0.5, 2.0, -0.125, 0.0]


def sym(name):
    return qspec.symbol_table()[name]


def expr_symbols(text):
    import sympy
    return {str(s) for s in sympy.sympify(
        text, locals=qspec.symbol_table()).free_symbols}


def numeric(text, env):
    """ Number from an expression spec under a full assignment. """
    if not isinstance(text, str):
        return text
    import sympy
    value = complex(sympy.sympify(text, locals=qspec.symbol_table()).subs(
        {sym(k): v for k, v in env.items()}))
    return value.real if abs(value.imag) < 1e-15 else value


def subst_box(b, env):
    """ Spec-level substitution: every expression -> number. """
    b = dict(b)
    if b["k"] == "g":
        g = b["g"]
        if g in qspec.ROT1 + qspec.ROT2:
            b["a"] = [numeric(b["a"][0], env)]
        elif g in ("scalar", "sqrt") and isinstance(b["a"][0], str):
            v = complex(numeric(b["a"][0], env))
            b["a"] = [v.real, v.imag] if g == "scalar" else [v.real]
        elif g == "CGate":
            name, n_in, n_out, vals = b["a"]
            b["a"] = [name, n_in, n_out, [
                float(np.real(numeric(v, env))) for v in vals]]
        elif g == "C":
            b["a"] = [subst_box(b["a"][0], env)]
    elif b["k"] == "zx":
        if b["g"] == "scalar" and isinstance(b["ph"], str):
            v = complex(numeric(b["ph"], env))
            b["ph"] = [v.real, v.imag]
        elif "ph" in b:
            b["ph"] = numeric(b["ph"], env)
    elif b["k"] == "box" and "svals" in b:
        vals = [complex(numeric(v, env)) for v in b["svals"]]
        b["vals"] = [v.real for v in vals] + [v.imag for v in vals]
    return b


def subst_spec(spec, env):
    return dict(spec, layers=[[subst_box(b, env), off]
                              for b, off in spec["layers"]])


def box_exprs(b):
    if b["k"] == "g":
        g = b["g"]
        if g in qspec.ROT1 + qspec.ROT2 + ["scalar", "sqrt"]:
            return [b["a"][0]] if isinstance(b["a"][0], str) else []
        if g == "CGate":
            return [v for v in b["a"][3] if isinstance(v, str)]
        if g == "C":
            return box_exprs(b["a"][0])
    if b["k"] == "zx" and isinstance(b.get("ph"), str):
        return [b["ph"]]
    if b["k"] == "bubble":
        return [e for x, _ in b["inside"]["layers"] for e in box_exprs(x)]
    if b["k"] == "box" and "svals" in b:
        return [v for v in b["svals"] if isinstance(v, str)]
    return []


def spec_symbols(spec):
    out = set()
    for b, _ in spec["layers"]:
        for e in box_exprs(b):
            out |= expr_symbols(e)
    return out


# ------------------------------------------------------------------ generators

@st.composite
def symbolic_circuits(draw, tier, allow_mixed=True, exprs=EXPRS,
                      max_boxes=5, gates=None):
    n = draw(st.integers(1, 2))
    scan = [["qubit", 0]] * n
    layers = [[{"k": "g", "g": "Ket", "a": [draw(st.integers(0, 1))
                                              for _ in range(n)]}, 0]]
    expr = st.sampled_from(exprs)
    for _ in range(draw(st.integers(1, max_boxes))):
        qs = [i for i, w in enumerate(scan) if w[0] == "qubit"]
        adj = [i for i in qs if i + 1 < len(scan)
               and scan[i + 1][0] == "qubit"]
        bs = [i for i, w in enumerate(scan) if w[0] == "bit"]
        opts = list(gates) if gates else ["rot", "rot", "scalar", "named"]
        if not gates:
            if adj:
                opts += ["rot2", "cx"]
            if allow_mixed:
                opts += ["mscalar", "measure"]
                if bs:
                    opts += ["cgate", "cgate"]
            opts += ["sqrt"]
        opts = [o for o in opts if (o not in ("rot", "named", "measure")
                                    or qs) and (o not in ("rot2", "cx")
                                                or adj)
                and (o != "cgate" or bs)]
        if not opts:
            break
        kind = draw(st.sampled_from(opts))
        if kind == "rot":
            b, off = {"k": "g", "g": draw(st.sampled_from(qspec.ROT1)),
                      "a": [draw(expr)]}, draw(st.sampled_from(qs))
        elif kind == "rot2":
            b, off = {"k": "g", "g": draw(st.sampled_from(qspec.ROT2)),
                      "a": [draw(expr)]}, draw(st.sampled_from(adj))
        elif kind == "cx":
            b, off = {"k": "g", "g": "CX"}, draw(st.sampled_from(adj))
        elif kind == "named":
            b, off = {"k": "g", "g": draw(st.sampled_from(["H", "X", "S"]))},\
                draw(st.sampled_from(qs))
        elif kind in ("scalar", "mscalar") and draw(st.integers(0, 3)) == 0:
            # a constant among symbolic boxes (number or sympy number)
            value = draw(st.sampled_from([0.5, -1, 2, "0.5", "-1", "3"]))
            b, off = {"k": "g", "g": "scalar",
                      "a": [value, 0] if kind == "mscalar" or isinstance(
                          value, str) else [value, draw(st.integers(-1, 1))],
                      "mixed": kind == "mscalar"},\
                draw(st.integers(0, len(scan)))
        elif kind == "scalar":
            b, off = {"k": "g", "g": "scalar", "a": [draw(st.one_of(
                expr, expr, st.sampled_from(
                    ["I*x", "x + I*y", "I*u - 1"]))), 0], "mixed": False},\
                draw(st.integers(0, len(scan)))
        elif kind == "mscalar":
            b, off = {"k": "g", "g": "scalar", "a": [draw(expr), 0],
                      "mixed": True}, draw(st.integers(0, len(scan)))
        elif kind == "sqrt":
            b, off = {"k": "g", "g": "sqrt", "a": [draw(st.sampled_from(
                ["x**2", "u**2 + 1", "4", "x"]))]},\
                draw(st.integers(0, len(scan)))
        elif kind == "measure":
            b, off = {"k": "g", "g": "Measure", "a": [1, True, False]},\
                draw(st.sampled_from(qs))
        else:
            off = draw(st.sampled_from(bs))
            vals = [draw(st.one_of(st.sampled_from(["x", "y", "u", "x + 1"]),
                                   st.integers(0, 2))) for _ in range(4)]
            b = {"k": "g", "g": "CGate", "a": ["p", 1, 1, vals]}
            if draw(st.booleans()):
                b["dag"] = True
        layers.append([b, off])
        scan = scan[:off] + specs.bcod(b) + scan[off + len(specs.bdom(b)):]
    return {"cls": "circuit", "dom": [], "layers": layers}


@st.composite
def subs_plans(draw, symbols):
    """ A first (possibly partial, possibly symbolic) substitution and a
    final numeric assignment of everything that is left. """
    symbols = sorted(symbols)
    first = []
    chosen = draw(st.lists(st.sampled_from(symbols), unique=True,
                           max_size=len(symbols))) if symbols else []
    for s in chosen:
        kind = draw(st.sampled_from(["number", "number", "symbol", "expr"]))
        if kind == "number":
            first.append([s, draw(st.sampled_from(VALUES))])
        elif kind == "symbol":
            first.append([s, draw(st.sampled_from(["z", "y", "u"]))])
        else:
            first.append([s, draw(st.sampled_from(["z + 1", "2*z", "z*z"]))])
    env = {s: draw(st.sampled_from(VALUES))
           for s in ["x", "y", "z", "u", "v", "w"]}
    if draw(st.integers(0, 2)) == 0:
        # values that differ, and print alike with three digits
        base = draw(st.sampled_from(VALUES))
        for k, s in enumerate(["x", "y", "u", "v"]):
            env[s] = base + 4e-4 * k
    return {"first": first, "env": env,
            "as_list": draw(st.booleans()),
            "order": draw(st.permutations(list(range(6)))),
            "extra": draw(st.booleans())}


def lambdify_order(symbols, plan):
    """ The symbols handed to lambdify: those of the diagram, possibly one
    that does not occur, in an order drawn with the case (not sorted). """
    xs = sorted(symbols) + (["w"] if plan.get("extra") else [])
    keys = plan.get("order") or list(range(6))
    return [x for _, x in sorted(zip(keys, xs))]


@st.composite
def circuit_cases(draw, tier):
    spec = draw(symbolic_circuits(tier))
    return {"d": spec, "plan": draw(subs_plans(spec_symbols(spec) or {"x"}))}


def to_complex(arr, env):
    """ Numeric array from a possibly symbolic library array, after
    substituting the final assignment. """
    import sympy
    out = []
    for e in np.asarray(arr, dtype=object).flatten():
        try:
            if hasattr(e, "subs"):
                e = e.subs({sym(k): v for k, v in env.items()})
                e = complex(sympy.N(e))
            out.append(complex(e))
        except TypeError:
            raise Violation("C14:value-not-numeric-after-full-substitution",
                            "entry {!r} of {!r}".format(e, arr)[:600])
    return np.array(out, dtype=complex)


def apply_first(x, plan):
    """ x.subs(...) with the plan's first substitution (list of pairs or
    successive (var, expr) calls). """
    pairs = [(sym(s), qspec.num(v) if isinstance(v, str) else v)
             for s, v in plan["first"]]
    if not pairs:
        return x
    if plan["as_list"]:
        return x.subs(pairs)
    for var, val in pairs:
        x = x.subs(var, val)
    return x


def env_after_first(plan):
    """ Full numeric assignment equivalent to `first` followed by `env`.
    Both a list of pairs and successive calls are sequential (sympy's subs
    applies the pairs of a list in order). """
    import sympy
    env = dict(plan["env"])
    out = dict(env)
    table = {sym(k): v for k, v in env.items()}
    # sequential: later substitutions see the results of earlier ones
    exprs = {k: sym(k) for k in env}
    for s, v in plan["first"]:
        val = sympy.sympify(v, locals=qspec.symbol_table())\
            if isinstance(v, str) else sympy.Float(v)
        exprs = {k: e.subs(sym(s), val) for k, e in exprs.items()}
    return {k: float(complex(e.subs(table)).real) for k, e in exprs.items()}


def same(got, ref, label, detail):
    got, ref = np.asarray(got, dtype=complex), np.asarray(ref, dtype=complex)
    require(got.size == ref.size and np.allclose(
        got.reshape(ref.shape), ref, **TOL), "C14:" + label,
        lambda: "{}: got {} expected {}".format(
            detail, np.round(got.flatten(), 6).tolist(),
            np.round(ref.flatten(), 6).tolist())[:1500])


def structure(d):
    return [(type(b).__name__, specs.tkey(b.dom), specs.tkey(b.cod),
             bool(getattr(b, "is_dagger", False)),
             bool(getattr(b, "is_mixed", False))) for b in d.boxes]


def check_diagram(spec, plan, evaluate, reference, labels):
    """ Shared oracle. evaluate(d) -> library array (maybe symbolic);
    reference(numeric spec) -> ndarray. """
    import sympy
    d = specs.build(spec)
    symbols = spec_symbols(spec)
    require({str(s) for s in d.free_symbols} == symbols, "C14:free_symbols",
            lambda: "{} reports {} but its parameters contain {}".format(
                d, d.free_symbols, symbols))
    full_env = env_after_first(plan)
    ref = reference(subst_spec(spec, full_env))
    # substitute then evaluate
    d1 = apply_first(d, plan)
    specs.well_typed(d1, "subs")
    require(structure(d1) == structure(d), "C14:subs-changes-structure",
            lambda: "{} -> {}: {} vs {}".format(d, d1, structure(d),
                                                structure(d1)))
    rest = [(sym(k), v) for k, v in plan["env"].items()]
    d2 = d1.subs(rest)
    require(structure(d2) == structure(d), "C14:subs-changes-structure",
            lambda: "{} -> {}".format(d, d2))
    require(not d2.free_symbols, "C14:free-symbols-left",
            lambda: "{} still reports {}".format(d2, d2.free_symbols))
    out = np.asarray(evaluate(d2), dtype=object).flatten()
    for entry in out:
        try:
            complex(entry)
        except Exception:  # noqa
            raise Violation("C14:evaluation-not-numeric",
                            "{} evaluates to {!r}".format(d2, entry))
    same(np.array([complex(e) for e in out]), ref, "subs-then-eval",
         "{} with {}".format(common.show(d), plan))
    # evaluate then substitute
    sym_eval = evaluate(d, raw=True)
    e1 = apply_first(sym_eval, plan)
    e2 = e1.subs(rest)
    same(to_complex(e2.array, {}), ref, "eval-then-subs",
         "{} with {}".format(common.show(d), plan))
    # lambdify = subs
    xs = lambdify_order(symbols, plan)
    if xs:
        vals = [plan["env"][x] for x in xs]
        function = d.lambdify(*[sym(x) for x in xs])
        lam = function(*vals)
        sub = d.subs([(sym(x), v) for x, v in zip(xs, vals)])
        require(structure(lam) == structure(d),
                "C14:lambdify-changes-structure",
                lambda: "{} -> {}".format(d, lam))
        # the function is called again, on other values
        env3 = dict(plan["env"])
        for k, x in enumerate(xs):
            env3[x] = plan["env"][x] - 0.75 + 0.125 * k
        lam3 = function(*[env3[x] for x in xs])
        require(structure(lam3) == structure(d),
                "C14:lambdify-changes-structure",
                lambda: "second call of the lambdified {}: {}".format(d, lam3))
        same(to_complex(evaluate(lam3), {}),
             reference(subst_spec(spec, env3)), "lambdify-second-call",
             common.show(d))
        ref_l = reference(subst_spec(spec, dict(plan["env"])))
        same(to_complex(evaluate(lam), {}), ref_l, "lambdify-eval",
             common.show(d))
        same(to_complex(evaluate(sub), {}), ref_l, "subs-eval",
             common.show(d))
        # "the same diagram": same structure and numerically equal
        # parameters (subs yields sympy numbers, lambdify Python floats, and
        # sympy does not compare an exact 0 equal to 0.0)
        for bl, bs in zip(lam.boxes, sub.boxes):
            pl, ps = getattr(bl, "data", None), getattr(bs, "data", None)
            if pl is None and ps is None:
                continue
            same(to_complex(pl, {}), to_complex(ps, {}),
                 "lambdify-vs-subs", "{!r} vs {!r}".format(bl, bs))
        # the same object lambdified again, symbols in another order and
        # other values: a function of the symbols as listed this time
        if len(xs) >= 2:
            ys = xs[1:] + xs[:1]
            env2 = dict(plan["env"])
            for k, y in enumerate(ys):
                env2[y] = plan["env"][y] + 0.5 + 0.25 * k
            lam2 = d.lambdify(*[sym(y) for y in ys])(*[env2[y] for y in ys])
            same(to_complex(evaluate(lam2), {}),
                 reference(subst_spec(spec, env2)), "lambdify-again",
                 "{} on {} after {}".format(common.show(d), ys, xs))
    shared = any(sum(1 for b, _ in spec["layers"]
                     if any(s in expr_symbols(e) for e in box_exprs(b))) >= 2
                 for s in symbols)
    return dict(nt=shared, labels=labels + ["first%d" % len(plan["first"])],
                show="{} | {}".format(common.show(d, 200), plan["first"]))


def check_circuit(case):
    spec = case["d"]
    mixed = any(b.get("g") in ("Measure",) or b.get("mixed")
                for b, _ in spec["layers"]) or any(
        w[0] == "bit" for s in specs.scans(spec) for w in s)

    def evaluate(d, raw=False):
        out = d.eval(mixed=mixed)
        return out if raw else out.array

    def reference(numeric_spec):
        return qsem.cq_eval(numeric_spec) if mixed\
            else qsem.pure_eval(numeric_spec)
    return check_diagram(spec, case["plan"], evaluate, reference,
                         ["mixed" if mixed else "pure"])


# ------------------------------------------------------------------ tensor

@st.composite
def tensor_cases(draw, tier):
    entry = st.one_of(st.sampled_from(EXPRS), st.integers(-2, 2),
                      st.sampled_from(EXPRS + ["I*x", "x + I*y", "3 - I"]))
    dom = draw(st.sampled_from([[], [], [[2, 0]]]))
    scan, layers = [list(w) for w in dom], []
    for k in range(draw(st.integers(1, 3))):
        nd = draw(st.integers(0, min(1, len(scan))))
        off = draw(st.integers(0, len(scan) - nd))
        nc = draw(st.integers(0, 2 if len(scan) < 3 else 0))
        svals = [draw(entry) for _ in range(2 ** (nd + nc))]
        b = {"k": "box", "name": "t%d" % k, "dom": [[2, 0]] * nd,
             "cod": [[2, 0]] * nc, "dag": False, "svals": svals}
        layers.append([b, off])
        scan = scan[:off] + [[2, 0]] * nc + scan[off + nd:]
        if draw(st.integers(0, 2)) == 0 and len(scan) - nc + nd <= 3:
            # the same box again, daggered, right below (f >> f.dagger())
            layers.append([dict(b, dom=b["cod"], cod=b["dom"], dag=True),
                           off])
            scan = scan[:off] + [[2, 0]] * nd + scan[off + nc:]
    spec = {"cls": "tensor", "dom": dom, "layers": layers}
    return {"d": spec, "plan": draw(subs_plans(spec_symbols(spec) or {"x"}))}


SYMBOLIC_FUNCS = {"square": lambda t: t ** 2, "double": lambda t: 2 * t,
                  "plus1": lambda t: t + 1, "cube": lambda t: t ** 3}


def build_symbolic_tensor(spec):
    from discopy import tensor
    from discopy.tensor import Dim
    boxes, offsets = [], []
    for b, off in spec["layers"]:
        if b["k"] == "bubble":
            boxes.append(build_symbolic_tensor(b["inside"]).bubble(
                func=SYMBOLIC_FUNCS[b["f"]]))
            offsets.append(off)
            continue
        data = [qspec.num(v) if isinstance(v, str) else v
                for v in b["svals"]]
        if len(data) >= 4:  # nested lists: substitution must recurse
            half = len(data) // 2
            data = [data[:half], data[half:]]
        if b.get("dag"):
            boxes.append(tensor.Box(b["name"], Dim(*[2] * len(b["cod"])),
                                    Dim(*[2] * len(b["dom"])), data).dagger())
        else:
            boxes.append(tensor.Box(b["name"], Dim(*[2] * len(b["dom"])),
                                    Dim(*[2] * len(b["cod"])), data))
        offsets.append(off)
    cod = specs.spec_cod(spec)
    return tensor.Diagram(Dim(*[2] * len(spec["dom"])),
                          Dim(*[2] * len(cod)), boxes, offsets)


def check_tensor(case):
    spec = case["d"]
    orig_build = specs.build

    def evaluate(d, raw=False):
        out = d.eval()
        return out if raw else out.array

    def reference(numeric_spec):
        return classes.tensor_ref_eval(numeric_spec)
    specs.build = lambda s, route="ctor": build_symbolic_tensor(s)
    try:
        info = check_diagram(spec, case["plan"], evaluate, reference,
                             ["tensor"])
    finally:
        specs.build = orig_build
    # the same diagram inside a bubble, alone and within a composite: its
    # symbols are still reported, and substituting them all leaves numbers
    from discopy import tensor
    d = build_symbolic_tensor(spec)
    symbols = spec_symbols(spec)
    plan = case["plan"]
    for what, outer in (("bubble", d.bubble(func=lambda x: 2 * x)),
                        ("composite with a bubble", tensor.Id(d.dom)
                         >> d.bubble(func=lambda x: 2 * x)
                         >> tensor.Id(d.cod))):
        require({str(x) for x in outer.free_symbols} == symbols,
                "C14:free_symbols", lambda: "{}: {} reports {} but its "
                "parameters contain {}".format(what, outer,
                                               outer.free_symbols, symbols))
        done = outer.subs([(sym(k), v) for k, v in plan["env"].items()])
        require(not done.free_symbols, "C14:free-symbols-left",
                lambda: "{} still reports {}".format(done, done.free_symbols))
        same(to_complex(done.eval().array, {}), 2 * classes.tensor_ref_eval(
            subst_spec(spec, dict(plan["env"]))), "subs-then-eval-bubble",
            common.show(d))
    return info


# ------------------------------------------------------------------ zx

@st.composite
def zx_cases(draw, tier):
    scan, layers = [], []
    n = draw(st.integers(0, 2))
    scan = [[1, 0]] * n
    expr = st.one_of(st.sampled_from(EXPRS), st.sampled_from(VALUES))
    for _ in range(draw(st.integers(1, 4))):
        kind = draw(st.sampled_from(["spider", "spider", "scalar", "H"]))
        if kind == "H" and scan:
            b, off = {"k": "zx", "g": "H"}, draw(
                st.integers(0, len(scan) - 1))
        elif kind == "scalar":
            b, off = {"k": "zx", "g": "scalar", "ph": draw(st.sampled_from(
                ["x", "x + 1", "I*y", "2"]))}, draw(
                    st.integers(0, len(scan)))
        else:
            n_in = draw(st.integers(0, min(2, len(scan))))
            off = draw(st.integers(0, len(scan) - n_in))
            n_out = draw(st.integers(0, 2 if len(scan) - n_in < 3 else 0))
            b = {"k": "zx", "g": draw(st.sampled_from(["Z", "X"])),
                 "n": [n_in, n_out], "ph": draw(expr)}
        layers.append([b, off])
        scan = scan[:off] + specs.bcod(b) + scan[off + len(specs.bdom(b)):]
    spec = {"cls": "zx", "dom": [[1, 0]] * n, "layers": layers}
    return {"d": spec, "plan": draw(subs_plans(spec_symbols(spec) or {"x"}))}


def check_zx(case):
    """ ZX diagrams have no evaluation of their own: substitution commutes
    with the standard interpretation O8 applied to the substituted spec;
    lambdify agrees with subs; structure and free symbols as above. """
    spec, plan = case["d"], case["plan"]
    d = specs.build(spec)
    symbols = spec_symbols(spec)
    require({str(s) for s in d.free_symbols} == symbols, "C14:free_symbols",
            lambda: "{} reports {}".format(d, d.free_symbols))
    d1 = apply_first(d, plan)
    rest = [(sym(k), v) for k, v in plan["env"].items()]
    d2 = d1.subs(rest)
    specs.well_typed(d2, "subs")
    require(structure(d2) == structure(d), "C14:subs-changes-structure",
            lambda: "{} -> {}".format(d, d2))
    require(not d2.free_symbols, "C14:free-symbols-left", str(d2))
    ref = qsem.zx_eval(subst_spec(spec, env_after_first(plan)))
    got = qsem.zx_eval(zx_spec_of(d2))
    same(got, ref, "zx-subs", "{} with {}".format(common.show(d), plan))
    xs = lambdify_order(symbols, plan)
    if xs:
        vals = [plan["env"][x] for x in xs]
        lam = d.lambdify(*[sym(x) for x in xs])(*vals)
        sub = d.subs([(sym(x), v) for x, v in zip(xs, vals)])
        require(structure(lam) == structure(d),
                "C14:lambdify-changes-structure", str(lam))
        same(qsem.zx_eval(zx_spec_of(lam)), qsem.zx_eval(zx_spec_of(sub)),
             "zx-lambdify-vs-subs", common.show(d))
        same(qsem.zx_eval(zx_spec_of(lam)),
             qsem.zx_eval(subst_spec(spec, dict(plan["env"]))),
             "zx-lambdify", common.show(d))
    return dict(nt=len(symbols) >= 1 and len(spec["layers"]) >= 2,
                labels=["zx"], show=common.show(d))


def zx_spec_of(d):
    """ Numeric spec read back from a library ZX diagram. """
    layers = []
    for b, off in zip(d.boxes, d.offsets):
        kind = type(b).__name__
        if kind == "Swap":
            layers.append([{"k": "swap", "l": [1, 0], "r": [1, 0]}, off])
        elif kind == "Had":
            layers.append([{"k": "zx", "g": "H"}, off])
        elif kind == "Scalar":
            v = complex(b.data)
            layers.append([{"k": "zx", "g": "scalar",
                            "ph": [v.real, v.imag]}, off])
        elif kind in ("Z", "X"):
            ph = complex(b.phase)
            require(abs(ph.imag) < 1e-12, "C14:complex-phase", str(b))
            layers.append([{"k": "zx", "g": kind, "n": [len(b.dom),
                                                       len(b.cod)],
                            "ph": ph.real}, off])
        else:
            raise Violation("C14:unexpected-box", repr(b))
    return {"cls": "zx", "dom": [[1, 0]] * len(d.dom), "layers": layers}


def enum_near_equal(tier):
    """ Two boxes of one class whose parameters are different symbols, given
    values that differ and print alike (three digits): Ket >> H's >> G(x) >>
    H's >> G(y), pure and measured. """
    bases = VALUES if tier == "thorough" else [0.3, 1.25, -0.125]
    for g in qspec.ROT1 + qspec.ROT2 + ["scalar", "sqrt"]:
        for base in bases:
            for pair in (("x", "y"), ("u", "x + v")):
                for measured in (False, True):
                    two = g in qspec.ROT2
                    n = 2 if two else 1
                    hs = [[{"k": "g", "g": "H"}, i] for i in range(n)]

                    def box(expr):
                        if g == "scalar":
                            return {"k": "g", "g": "scalar", "a": [expr, 0],
                                    "mixed": False}
                        return {"k": "g", "g": g, "a": [expr]}
                    layers = [[{"k": "g", "g": "Ket", "a": [0] * n}, 0]]\
                        + hs + [[box(pair[0]), 0]] + hs + [[box(pair[1]), 0]]
                    if measured:
                        layers.append([{"k": "g", "g": "Measure",
                                        "a": [1, True, False]}, 0])
                    env = {s: base + 4e-4 * k for k, s in enumerate(
                        ["x", "y", "u", "z"])}
                    env.update(v=0.0, w=0.5)
                    yield {"d": {"cls": "circuit", "dom": [],
                                 "layers": layers},
                           "plan": {"first": [], "env": env, "as_list": False,
                                    "order": list(range(6)), "extra": False}}


core.register("C14", [
    Facet("circuits", circuit_cases, check_circuit, n_quick=480,
          shards_quick=8, rule=RULE),
    Facet("near_equal", None, check_circuit, enum=enum_near_equal,
          shards_quick=4, rule="every parametrised gate twice in a circuit, "
          "on two symbols whose values differ in the fourth digit"),
    Facet("tensors", tensor_cases, check_tensor, n_quick=320,
          shards_quick=4, rule="tensor diagrams whose boxes mix sympy and "
          "numeric entries"),
    Facet("zx", zx_cases, check_zx, n_quick=400, shards_quick=4,
          rule="ZX diagrams with symbolic spider phases and scalars, read "
          "back and interpreted by O8"),
], rule=RULE, assumptions=[
    "numeric comparison after substituting every symbol, atol = rtol = 1e-8",
    "the reference evaluates the spec in which every expression has been "
    "replaced by its number (spec-side substitution)"])
