"""C01 Every diagram the library hands back is well-typed.

Facet `history`: programs of public operations interpreted over a pool of
diagrams (the pool starts from generated seed diagrams; every value an
operation returns or yields is checked with the re-scan type checker O1 and
then joins the pool).  Ill-typed requests (decided by comparing type keys) must
be refused with an exception.
Facet `illtyped`: constructor-level ill-typed requests.
Facet `translators`: outputs of parsers / translators / ansaetze.
"""
import itertools

from hypothesis import strategies as st

from harness import core, specs, gen, common, classes, qspec, xspec  # noqa
from harness.core import Facet, Violation, require

CLASSES = ["cat", "monoidal", "rigid", "tensor", "circuit", "zx", "biclosed",
           "cartesian"]
NO_DAGGER = {"cartesian"}
RULE = ("operation programs (<= 25 ops) over pools seeded with generated "
        "diagrams in each of the eight diagram classes; every returned or "
        "yielded value is re-scanned (O1); non-trivial = some checked value "
        "has >= 2 boxes and width >= 2, or a refusal was expected")

OPS = ["then_fit", "then_any", "tensor", "dagger", "slice", "index",
       "rslice", "step_slice", "interchange", "normalize", "normal_form",
       "foliate", "foliation", "flatten", "swap", "permutation", "permute",
       "add", "bubble", "subs", "downgrade", "open_bubbles", "cups",
       "transpose", "curry", "closed", "width_depth", "layers_iter"]
REFUSAL = (Exception,)


def key(t):
    return specs.tkey(t)


def fit(a, b):
    """ Do the types a and b agree? True / False when the harness-side
    reading and the library's own equality (both ways round) say the same,
    None when they disagree: the request is then neither well-typed nor
    ill-typed for this property (e.g. the bare slash type x << Ty() against
    Ty(x << Ty()) in biclosed) and is not made. """
    mine = key(a) == key(b)
    theirs = (bool(a == b), bool(b == a))
    if theirs == (mine, mine):
        return mine
    return None


def is_monoidal(d):
    from discopy import monoidal
    return isinstance(d, monoidal.Diagram)


class Run:
    def __init__(self, cls):
        self.cls, self.pool = cls, []
        self.big = self.refusals = self.checked = 0
        self.ops = []

    def add(self, value, what):
        from discopy import cat
        specs.well_typed(value, what)
        self.checked += 1
        if isinstance(value, cat.Sum):
            return
        if len(value.boxes) >= 2 and (
                not is_monoidal(value) or max(
                    [len(value.dom)] + [len(l.cod) for l in value.layers.boxes]
                ) >= 2):
            self.big += 1
        if len(self.pool) < 40 and len(value.boxes) <= 14\
                and (not is_monoidal(value) or len(value.cod) <= 7):
            self.pool.append(value)

    def refuse(self, func, what):
        common.expect_raises(func, REFUSAL, "C01:ill-typed-request-accepted",
                             what)
        self.refusals += 1

    def pick(self, i):
        return self.pool[i % len(self.pool)]


def run_op(run, op):
    from discopy import cat, monoidal, rigid
    from discopy.rewriting import InterchangerError
    cls = run.cls
    name, i, j, args = op["op"], op["x"], op["y"], op["a"]
    x = run.pick(i)
    mono = is_monoidal(x)
    n = len(x.boxes)
    if name == "then_fit":
        fits = [p for p in run.pool if fit(x.cod, p.dom)]
        if fits:
            run.add(x >> fits[j % len(fits)], "then")
    elif name == "then_any":
        y = run.pick(j)
        if fit(x.cod, y.dom):
            run.add(x >> y, "then")
            run.add(y << x, "<<")
        elif fit(x.cod, y.dom) is False:
            run.refuse(lambda: x >> y, "{} >> {}".format(
                common.show(x), common.show(y)))
            run.refuse(lambda: x.then(y, y), "then(y, y)")
    elif name == "tensor" and mono:
        y = run.pick(j)
        if is_monoidal(y) and len(x.cod) + len(y.cod) <= 7:
            run.add(x @ y, "tensor")
            # several operands at once, the receiver first or an identity
            z = run.pick(args[3])
            if is_monoidal(z) and len(x.cod) + len(y.cod) + len(z.cod) <= 7\
                    and len(x) + len(y) + len(z) <= 14:
                run.add(x.tensor(y, z), "{}.tensor({}, {})".format(
                    common.show(x), common.show(y), common.show(z)))
                run.add(x.id(x.dom[:0]).tensor(x, y, z), "Id().tensor(...)")
                run.add(x.tensor(), "tensor()")
    elif name == "dagger" and cls not in NO_DAGGER:
        # boxes that define no dagger (closed-structure rules, bubbles)
        if any(type(b).__name__ in ("FA", "BA", "FC", "BC", "FX", "BX",
                                    "Curry", "Bubble") for b in x.boxes):
            return
        run.add(x[::-1], "dagger")
        run.add(x.dagger(), "dagger()")
    elif name == "slice":
        lo, hi = args[0], args[1]
        run.add(x[lo:hi], "slice [{}:{}] of {}".format(lo, hi, common.show(x)))
    elif name == "index" and n:
        k = args[0] % n if args[0] is not None else 0
        run.add(x[k], "index")
        run.add(x[k - n], "negative index")
    elif name == "rslice" and cls not in NO_DAGGER and not any(
            type(b).__name__ in ("FA", "BA", "FC", "BC", "FX", "BX", "Curry",
                                 "Bubble") for b in x.boxes):
        lo, hi = args[0], args[1]
        if (lo, hi) == (None, None):
            return
        try:  # undocumented: raises, or returns a well-typed diagram
            value = x[lo:hi:-1]
        except Exception:  # noqa
            run.refusals += 1
            return
        run.add(value, "reversed slice [{}:{}:-1] of {}".format(lo, hi, common.show(x)))
    elif name == "step_slice":
        try:
            value = x[args[0]:args[1]:args[2] or 2]
        except Exception:  # noqa
            run.refusals += 1
            return
        run.add(value, "slice with step {}".format(args[2] or 2))
    elif name == "interchange" and mono and n:
        a, b = args[0] if args[0] is not None else 0,\
            args[1] if args[1] is not None else 0
        try:
            value = x.interchange(a % (n + 1), b % (n + 1), left=bool(args[2]))
        except (InterchangerError, IndexError):
            run.refusals += 1
            return
        run.add(value, "interchange")
    elif name == "normalize" and mono and n <= 8:
        gen_ = x.normalize(left=bool(args[2]))\
            if cls != "rigid" or True else x.normalize()
        try:
            for step in itertools.islice(gen_, 60):
                run.add(step, "normalize step of {}".format(common.show(x)))
        except (NotImplementedError,):
            run.refusals += 1
    elif name == "normal_form" and mono and n <= 8:
        try:
            value = x.normal_form(left=bool(args[2]))
        except NotImplementedError:
            run.refusals += 1
            return
        run.add(value, "normal_form of {}".format(common.show(x)))
    elif name == "foliate" and mono and n <= 8:
        for step in itertools.islice(x.foliate(), 80):
            run.add(step, "foliate step of {}".format(common.show(x)))
    elif name == "foliation" and mono and n <= 8:
        fol = x.foliation()
        run.add(fol, "foliation of {}".format(common.show(x)))
        flat = fol.flatten()
        run.add(flat, "foliation().flatten() of {}".format(common.show(x)))
    elif name == "flatten" and mono:
        run.add(x.flatten(), "flatten")
        # a diagram used as a box of another diagram (public constructor), to
        # the right of some wires, twice over; flattened
        y = run.pick(j)
        if cls in ("monoidal", "rigid") and is_monoidal(y):
            D = specs.mod(cls).Diagram
            t = y.cod[:(args[2] or 0) % 3]
            inner = D(t @ x.dom, t @ x.cod, [x], [len(t)])
            specs.well_typed(inner, "diagram with a diagram as a box")
            outer = D(t @ inner.dom, t @ inner.cod, [x.id(t @ t @ x.dom),
                                                      inner], [0, len(t)])
            specs.well_typed(outer, "diagram of diagrams of diagrams")
            for nested, k in ((inner, 1), (outer, 2)):
                flat = nested.flatten()
                run.add(flat, "flatten of {} inside a diagram at offset {}"
                        .format(common.show(x), len(t)))
                expected = x.flatten()
                for _ in range(k):
                    expected = x.id(t) @ expected
                require(bool(flat == expected), "C01:flatten-nested",
                        lambda: "{!r} != {!r}".format(flat, expected))
    elif name in ("swap", "permutation") and cls in (
            "monoidal", "rigid", "tensor", "circuit", "zx"):
        y = run.pick(j)
        D = type(x) if hasattr(type(x), "swap") else None
        D = specs.mod(cls).Diagram
        if name == "swap":
            if len(x.cod) + len(y.cod) <= 6:
                run.add(D.swap(x.cod, y.cod), "swap({}, {})".format(
                    x.cod, y.cod))
        else:
            t = x.cod if len(x.cod) <= 6 else x.cod[:6]
            perm = perm_of(args[3], len(t))
            run.add(D.permutation(perm, t), "permutation {}".format(perm))
            if len(t) >= 2:
                bad = list(perm)
                bad[0] = bad[1]
                run.refuse(lambda: D.permutation(bad, t),
                           "permutation({})".format(bad))
                run.refuse(lambda: D.permutation(perm[:-1], t),
                           "permutation of wrong length")
    elif name == "permute" and cls in ("monoidal", "rigid", "tensor",
                                       "circuit", "zx") and len(x.cod) <= 6:
        if key(x.dom) == key(x.cod):
            perm = perm_of(args[3], len(x.cod))
            run.add(x.permute(*perm), "permute")
    elif name == "add":
        y = run.pick(j)
        if fit(x.dom, y.dom) and fit(x.cod, y.cod):
            total = x + y
            run.add(total, "sum")
            fits = [p for p in run.pool if fit(x.cod, p.dom)]
            if fits:
                run.add(total >> fits[0], "sum >> diagram")
            if mono:
                run.add(total @ x, "sum @ diagram")
            if cls not in NO_DAGGER and not any(
                    type(b).__name__ in (
                        "FA", "BA", "FC", "BC", "FX", "BX", "Curry", "Bubble")
                    for t in (x, y) for b in t.boxes):
                run.add(total[::-1], "sum dagger")
        elif False in (fit(x.dom, y.dom), fit(x.cod, y.cod)):
            run.refuse(lambda: x + y, "{} + {}".format(
                common.show(x), common.show(y)))
    elif name == "bubble" and cls in ("cat", "monoidal", "rigid"):
        run.add(x.bubble(), "bubble")
        if mono and n and args[2]:
            run.add(x.bubble(dom=x.cod, cod=x.dom) >> x, "typed bubble")
    elif name == "subs" and cls in ("cat", "monoidal", "rigid"):
        import sympy
        run.add(x.subs(sympy.Symbol("x"), 1), "subs")
        if not isinstance(x, cat.Sum):
            # symbols in, symbols out: every view of the result (boxes,
            # layers, later slices and daggers) shows the substituted boxes
            y, phi = common.substituted(x)
            run.add(y, "subs of symbolic boxes")
            require(phi not in y.free_symbols, "C01:subs-left-a-symbol",
                    lambda: str(y))
            if n:
                run.add(y[n // 2:], "slice after subs")
                for part in (y[:n // 2], y[n // 2:]):
                    require(all(phi not in b.free_symbols
                                for b in part.boxes),
                            "C01:stale-boxes-after-subs", lambda: repr(part))
    elif name == "downgrade" and mono and cls in ("monoidal", "rigid"):
        run.add(x.downgrade(), "downgrade")
    elif name == "open_bubbles" and mono and cls in ("monoidal", "rigid"):
        run.add(x.open_bubbles(), "open_bubbles")
    elif name == "cups" and cls in ("rigid",)\
            and isinstance(x, rigid.Diagram):
        t = x.cod[:3]
        run.add(rigid.Diagram.cups(t, t.r), "cups(t, t.r)")
        run.add(rigid.Diagram.cups(t.l, t), "cups(t.l, t)")
        run.add(rigid.Diagram.caps(t, t.l), "caps(t, t.l)")
        run.add(rigid.Diagram.caps(t.r, t), "caps(t.r, t)")
        if len(t):
            run.refuse(lambda: rigid.Diagram.cups(t, t), "cups(t, t)")
            run.refuse(lambda: rigid.Diagram.caps(t, t.r.r), "caps(t, t.r.r)")
    elif name == "cups" and cls in ("tensor", "circuit", "zx"):
        t = x.cod[:2]
        if cls == "tensor":  # composition degrades Dim to rigid.Ty
            from discopy.tensor import Dim
            t = Dim(*[o.name for o in t.objects])
        D = specs.mod(cls).Diagram
        run.add(D.cups(t, t.r), "cups")
        run.add(D.caps(t, t.l), "caps")
    elif name == "transpose" and cls == "rigid" and len(x.dom) + len(x.cod)\
            <= 5 and isinstance(x, rigid.Diagram):
        run.add(x.transpose(left=bool(args[2])), "transpose")
    elif name == "curry" and cls == "rigid" and len(x.dom) >= 1\
            and isinstance(x, rigid.Diagram):
        k = 1 + (args[3] % len(x.dom))
        run.add(rigid.Diagram.curry(x, k, left=bool(args[2])),
                "curry({}, {})".format(k, bool(args[2])))
    elif name == "closed" and cls == "rigid"\
            and isinstance(x, rigid.Diagram)\
            and isinstance(run.pick(j), rigid.Diagram):
        a, b, c = x.dom[:2], x.cod[:2], run.pick(j).cod[:2]
        D = rigid.Diagram
        run.add(D.fa(a << b, b), "fa")
        run.add(D.ba(a, a >> b), "ba")
        run.add(D.fc(a, b, c), "fc")
        run.add(D.bc(a, b, c), "bc")
        run.add(D.fx(a, b, c), "fx")
        run.add(D.bx(a, b, c), "bx")
    elif name == "width_depth" and mono and n and n <= 8:
        require(isinstance(x.depth(), int) and isinstance(x.width(), int),
                "C01:depth-width", "")
    elif name == "layers_iter" and mono:
        for k, layer in enumerate(x):
            run.add(layer, "iteration item {}".format(k))


def perm_of(code, n):
    items = list(range(n))
    out = []
    code = abs(code or 0)
    while items:
        out.append(items.pop(code % len(items)))
        code //= max(1, len(items) + 1)
    return out


@st.composite
def programs(draw, tier):
    cls = draw(st.sampled_from(CLASSES))
    pool = []
    kw = dict(max_boxes=5, max_width=4)
    first = draw(gen.diagrams(cls, pool=pool, **kw))
    seeds = [first, draw(gen.diagrams(cls, dom=specs.spec_cod(first),
                                      pool=pool, **kw))]
    for _ in range(draw(st.integers(0, 2))):
        seeds.append(draw(gen.diagrams(cls, pool=pool, **kw)))
    if cls == "biclosed" and draw(st.booleans()):
        seeds.append(draw(rule_diagrams()))
    first_ops = []
    if cls == "rigid" and draw(st.integers(0, 2)) == 0:
        # a cap and a cup in zig-zag position that are not a snake (outer
        # legs of different types), normalised straight away
        k = draw(st.integers(0, len(seeds) - 1))
        width = len(specs.spec_cod(seeds[k]))
        fake = gen.fake_snake(
            seeds[k], draw(st.integers(0, max(0, width - 1))),
            draw(st.booleans()), draw(st.sampled_from([-1, 1])),
            draw(st.sampled_from([None, None, "scalar", "state", "endo"])))
        if fake is not None:
            seeds[k] = fake
            flag = draw(st.integers(0, 1))
            first_ops = [{"op": name, "x": k, "y": 0, "a": [0, 0, flag, 0]}
                         for name in ("normalize", "normal_form")]
    small = st.one_of(st.none(), st.integers(-8, 8))
    op = st.fixed_dictionaries({
        "op": st.sampled_from(OPS), "x": st.integers(0, 30),
        "y": st.integers(0, 30),
        "a": st.tuples(small, small, st.integers(-2, 2),
                       st.integers(0, 5000)).map(list)})
    ops = draw(st.lists(op, min_size=3, max_size=25 if tier == "quick"
                        else 40))
    return {"cls": cls, "seeds": seeds, "ops": first_ops + ops,
            "route": draw(st.sampled_from(["ctor", "whisker"]))}


@st.composite
def rule_diagrams(draw):
    """ A biclosed diagram made of rule boxes applied to a generated type. """
    t = st.deferred(lambda: xspec.bi_types(2))
    a, b, c = draw(t), draw(t), draw(t)
    choice = draw(st.sampled_from(["FA", "BA", "FC", "BC", "FX", "BX"]))
    o, u = xspec.over, xspec.under
    if choice == "FA":
        b_ = {"k": "bi", "g": "FA", "t": o(a, b)}
    elif choice == "BA":
        b_ = {"k": "bi", "g": "BA", "t": u(a, b)}
    elif choice == "FC":
        b_ = {"k": "bi", "g": "FC", "l": o(a, b), "r": o(b, c)}
    elif choice == "BC":
        b_ = {"k": "bi", "g": "BC", "l": u(a, b), "r": u(b, c)}
    elif choice == "FX":
        b_ = {"k": "bi", "g": "FX", "l": o(a, b), "r": u(c, b)}
    else:
        b_ = {"k": "bi", "g": "BX", "l": o(a, b), "r": u(a, c)}
    return {"cls": "biclosed", "dom": specs.bdom(b_), "layers": [[b_, 0]]}


def check_program(case):
    run = Run(case["cls"])
    for k, seed in enumerate(case["seeds"]):
        d = specs.build(seed, case["route"])
        specs.matches_spec(d, seed, "seed")
        run.add(d, "seed {}".format(k))
    done = []
    from discopy.cat import AxiomError
    for op in case["ops"]:
        try:
            run_op(run, op)
        except Violation:
            raise
        except AxiomError as exc:
            # the library's own "ill-typed" signal on a request that the
            # re-scan deems well-typed: its redundant views disagree
            raise Violation(
                "C01:axiom-error-on-well-typed-request",
                "{} on pool member {}: {}".format(
                    op["op"], common.show(run.pick(op["x"])), exc))
        except Exception as exc:  # noqa
            kind, label = core.signature(exc)
            if kind == "harness":
                raise
            # an unsupported operation is a refusal, not an ill-typed value
            done.append("raised:" + label)
            continue
        done.append(op["op"])
    return dict(nt=run.big > 0 or run.refusals > 0,
                labels=[case["cls"]] + sorted(set(done)),
                show="{}: {} | ops {}".format(
                    case["cls"], " ; ".join(common.show(p, 80)
                                            for p in run.pool[:3]),
                    done[:12]))


# ------------------------------------------------------------------ ill-typed

@st.composite
def illtyped_cases(draw, tier):
    cls = draw(st.sampled_from(["cat", "monoidal", "rigid", "tensor",
                                "circuit", "zx", "biclosed", "cartesian"]))
    spec = draw(gen.diagrams(cls, min_boxes=1, max_boxes=5, max_width=4))
    n = len(spec["layers"])
    return {"cls": cls, "d": spec, "k": draw(st.integers(0, n - 1)),
            "delta": draw(st.sampled_from([-2, -1, 1, 2, 3])),
            "mode": draw(st.sampled_from(
                ["offset", "cod", "dom", "lengths", "non-int", "negative",
                 "swap-composite", "cup-non-adjoint", "cup-composite",
                 "not-a-type", "empty", "empty", "pro-mix"])),
            "t": draw(gen.types(cls, 1, 2, gen.CLASS_NAMES.get(
                cls, gen.NAMES)))}


def check_illtyped(case):
    cls, spec, k = case["cls"], case["d"], case["k"]
    mode = case["mode"]
    sc = specs.scans(spec)
    boxes = [specs.box(cls, b) for b, _ in spec["layers"]]
    offsets = [off for _, off in spec["layers"]]
    ctor = (lambda dom, cod, bs, offs: specs.CLASSES[cls]["diagram"](
        dom, cod, bs, offs))\
        if cls in specs.CLASSES and specs.CLASSES[cls]["diagram"] else (
            lambda dom, cod, bs, offs: specs.mod(cls).Diagram(
                specs.ty(cls, dom), specs.ty(cls, cod), bs, offs))
    if cls == "cat":
        from discopy import cat

        def ctor(dom, cod, bs, offs):  # noqa
            return cat.Arrow(specs.ty(cls, dom), specs.ty(cls, cod), bs)
    good = ctor(sc[0], sc[-1], boxes, offsets)
    specs.well_typed(good, "constructor")

    def refuse(func, what):
        common.expect_raises(func, (Exception,),
                             "C01:ill-typed-request-accepted", what)
    label = mode
    if mode == "offset" and cls != "cat":
        new = offsets[k] + case["delta"]
        d = specs.bdom(spec["layers"][k][0])
        legal = new >= 0 and sc[k][new:new + len(d)] == d
        if legal:
            return dict(nt=False, labels=["offset-still-legal"])
        bad = offsets[:k] + [new] + offsets[k + 1:]
        # the shifted offset may make a different, still well-typed diagram
        try:
            value = ctor(sc[0], sc[-1], boxes, bad)
        except Exception:  # noqa
            return dict(nt=True, labels=[label], show=common.show(good))
        raise Violation("C01:ill-typed-request-accepted",
                        "offsets {} for {} gave {}".format(bad, good, value))
    if mode == "empty":
        # no boxes at all: the codomain has to be the domain
        for a in (sc[0], sc[-1], []):
            wrong = a + case["t"]
            if cls == "cat":
                if not a:
                    continue
                wrong = [[str(a[0][0]) + "'", 0]]
            refuse(lambda: ctor(a, wrong, [], []),
                   "no boxes, {} -> {}".format(a, wrong))
            refuse(lambda: ctor(wrong, a, [], []),
                   "no boxes, {} -> {}".format(wrong, a))
            value = ctor(a, a, [], [])
            specs.well_typed(value, "box-less constructor")
    elif mode == "cod":
        wrong = sc[-1] + case["t"]
        refuse(lambda: ctor(sc[0], wrong, boxes, offsets), "wrong cod")
    elif mode == "dom":
        wrong = case["t"] + sc[0]
        if cls == "cat":
            wrong = [[str(sc[0][0][0]) + "'", 0]]
        refuse(lambda: ctor(wrong, sc[-1], boxes, offsets), "wrong dom")
    elif mode == "lengths" and cls != "cat":
        refuse(lambda: ctor(sc[0], sc[-1], boxes, offsets + [0]),
               "boxes/offsets of different length")
    elif mode == "non-int" and cls != "cat":
        bad = offsets[:k] + [float(offsets[k])] + offsets[k + 1:]
        refuse(lambda: ctor(sc[0], sc[-1], boxes, bad), "float offset")
    elif mode == "negative" and cls != "cat":
        width = len(sc[k])
        d = specs.bdom(spec["layers"][k][0])
        if offsets[k] - width - 0 >= -width and width:
            bad = offsets[:k] + [offsets[k] - width] + offsets[k + 1:]
            if bad[k] < 0:
                try:
                    value = ctor(sc[0], sc[-1], boxes, bad)
                except Exception:  # noqa
                    return dict(nt=True, labels=[label])
                specs.well_typed(value, "negative offset accepted")
        return dict(nt=False, labels=["negative-n/a"])
    elif mode == "swap-composite" and cls in ("monoidal", "rigid"):
        m = specs.mod(cls)
        t = specs.ty(cls, case["t"] + case["t"])
        refuse(lambda: m.Swap(t, t[:1]), "Swap of a composite type")
    elif mode == "cup-non-adjoint" and cls == "rigid":
        m = specs.mod(cls)
        t = specs.ty(cls, case["t"][:1])
        refuse(lambda: m.Cup(t, t), "Cup(t, t)")
        refuse(lambda: m.Cap(t, t.r.r), "Cap(t, t.r.r)")
        refuse(lambda: m.Cup(t, m.Ty("other").r), "Cup of different names")
    elif mode == "cup-composite" and cls == "rigid":
        m = specs.mod(cls)
        t = specs.ty(cls, case["t"] + case["t"])
        refuse(lambda: m.Cup(t, t.r), "Cup of composite types")
        refuse(lambda: m.Cap(t, t.l), "Cap of composite types")
    elif mode == "not-a-type" and cls != "cartesian":
        refuse(lambda: ctor("x", sc[-1], boxes, offsets)
               if cls in ("cartesian",) else specs.mod(cls).Diagram(
                   "x", specs.ty(cls, sc[-1]), boxes, offsets)
               if cls != "cat" else specs.mod(cls).Arrow(
                   "x", specs.ty(cls, sc[-1]), boxes), "dom is a string")
    elif mode == "pro-mix" and cls in ("monoidal", "rigid", "zx",
                                       "cartesian"):
        # wires counted by a PRO against wires named by other integers
        # (dimensions): not the same objects, whatever their number
        from discopy import monoidal, rigid, tensor
        m = rigid if cls == "rigid" else monoidal
        pro = good if cls in ("zx", "cartesian") else m.Box(
            "g", m.PRO(1), m.PRO(2))
        n = 2 + abs(case["delta"])
        for other, what in (
                (m.Box("f", m.Ty(n), m.Ty(n + 1)), "Ty({})".format(n)),
                (tensor.Box("v", tensor.Dim(n), tensor.Dim(n, n),
                            list(range(n ** 3))), "Dim({})".format(n))):
            refuse(lambda: pro @ other, "PRO-typed @ {}-typed".format(what))
            refuse(lambda: pro.id(pro.dom[:1]) @ other,
                   "Id(PRO(1)) @ {}-typed".format(what))
            if len(pro.cod) == 1:
                refuse(lambda: pro >> other, "PRO-typed >> " + what)
    else:
        return dict(nt=False, labels=["n/a"])
    return dict(nt=True, labels=[label], show=common.show(good))


@st.composite
def mutated_type(draw, cls, t):
    """ The type spec t with exactly one leaf changed (a near miss). Returns
    None when t is empty. """
    if not t:
        return None
    t = [dict(x) if isinstance(x, dict) else list(x) for x in t]
    i = draw(st.integers(0, len(t) - 1))
    x = t[i]
    if isinstance(x, dict):
        tag, left, right = xspec.parts(x)
        choice = draw(st.sampled_from(
            ["flip"] + (["left"] if left else []) + (["right"] if right
                                                     else [])))
        if choice == "flip":
            t[i] = {"u" if tag == "o" else "o": [left, right]}
        elif choice == "left":
            t[i] = {tag: [draw(mutated_type(cls, left)), right]}
        else:
            t[i] = {tag: [left, draw(mutated_type(cls, right))]}
        return t
    name, z = x
    if cls == "rigid" and draw(st.booleans()):
        t[i] = [name, z + draw(st.sampled_from([-1, 1]))]
    elif cls == "tensor":
        t[i] = [5 - name, z]                      # 2 <-> 3
    elif cls == "circuit":
        t[i] = ["bit" if name == "qubit" else "qubit", z]
    elif cls in ("zx", "cartesian"):
        return None
    else:
        t[i] = [str(name) + "'", z]
    return t


@st.composite
def nearmiss_cases(draw, tier):
    cls = draw(st.sampled_from(["cat", "monoidal", "rigid", "tensor",
                                "circuit", "biclosed", "biclosed"]))
    a = draw(gen.diagrams(cls, max_boxes=4, max_width=4, min_boxes=1))
    cod = specs.spec_cod(a)
    bad = draw(mutated_type(cls, cod))
    return {"cls": cls, "a": a, "bad": bad,
            "side": draw(st.sampled_from(["then", "ctor", "sum"]))}


def typed_box(cls, name, dom, cod):
    """ A box dom -> cod of the class (circuit: a classical/quantum box). """
    if cls == "circuit":
        from discopy.quantum.circuit import Box
        return Box(name, specs.ty(cls, dom), specs.ty(cls, cod))
    return specs.box(cls, {"k": "box", "name": name, "dom": dom, "cod": cod,
                           "dag": False})


def check_nearmiss(case):
    """ Compose a diagram with a box whose domain differs from the diagram's
    codomain in exactly one leaf of one type: must be refused. """
    cls, a_spec, bad = case["cls"], case["a"], case["bad"]
    if bad is None:
        return dict(nt=False, labels=["empty"])
    cod = specs.spec_cod(a_spec)
    if specs.skey_ty(bad) == specs.skey_ty(cod):
        return dict(nt=False, labels=["no-change"])
    a = specs.build(a_spec)
    good_box = typed_box(cls, "g", cod, cod)
    bad_box = typed_box(cls, "g", bad, bad)
    specs.well_typed(a >> good_box, "a >> g")
    what = "{} >> box with domain {}".format(common.show(a), bad)

    def refuse(func):
        common.expect_raises(func, (Exception,),
                             "C01:ill-typed-request-accepted", what)
    if case["side"] == "then":
        refuse(lambda: a >> bad_box)
        refuse(lambda: bad_box >> a[::-1] if cls != "cartesian" else 1 / 0)
    elif case["side"] == "ctor" and cls != "cat":
        m = specs.mod(cls)
        refuse(lambda: m.Diagram(
            a.dom, specs.ty(cls, bad), a.boxes + [bad_box],
            a.offsets + [0]))
    else:
        other = specs.ident(cls, bad)
        refuse(lambda: specs.ident(cls, cod) + other)
    if cls == "rigid" and cod and any(z for _, z in cod):
        # the same names without their winding numbers, as a monoidal type:
        # an adjoint wire is not the plain wire of that name
        from discopy import monoidal
        plain = monoidal.Ty(*[n for n, _ in cod])
        flat = monoidal.Box("g", plain, plain)
        what = "{} >> monoidal box on {}".format(common.show(a), plain)
        refuse(lambda: a >> flat)
        refuse(lambda: flat >> a[::-1])
        refuse(lambda: monoidal.Diagram(
            a.downgrade().dom, plain, a.downgrade().boxes + [flat],
            a.offsets + [0]))
    nested = any(isinstance(x, dict) for x in cod)
    return dict(nt=True, labels=[cls, case["side"]]
                + (["nested-slash"] if nested else []), show=what)


core.register("C01", [
    Facet("history", programs, check_program, n_quick=3200, shards_quick=8,
          rule=RULE),
    Facet("nearmiss", nearmiss_cases, check_nearmiss, n_quick=1600,
          shards_quick=4, rule="a generated diagram composed (>>, "
          "constructor, +) with a value whose type differs from the expected "
          "one in exactly one leaf (name, winding number, dimension, bit/"
          "qubit, slash direction, nested side of a slash type): must be "
          "refused"),
    Facet("illtyped", illtyped_cases, check_illtyped, n_quick=1600,
          shards_quick=2, rule="one well-typed generated diagram and one "
          "corrupted constructor request derived from it; non-trivial = the "
          "request is ill-typed by key comparison"),
], rule=RULE, assumptions=[
    "types are compared by (name, z) keys read from .objects, not by the "
    "library's __eq__",
    "exotic slices (step != 1 other than [::-1]) are only required to raise "
    "or return a well-typed value"])


# ------------------------------------------------------------------ translators

@st.composite
def translator_cases(draw, tier):
    kind = draw(st.sampled_from([
        "iqp", "real_amp", "random_tiling", "circuit2zx", "from_tk",
        "rewire", "init_and_discard", "circuit_functor", "jacobian",
        "grad", "to_tk_post_processing", "from_pyzx"]))
    case = {"kind": kind, "seed": draw(st.integers(0, 10 ** 6))}
    if kind == "iqp":
        n = draw(st.integers(1, 4))
        depth = draw(st.integers(1, 3))  # IQPansatz refuses empty params
        case["n"] = n
        case["params"] = [draw(st.integers(-8, 8)) / 8 for _ in range(3)]\
            if n == 1 else [[draw(st.integers(-8, 8)) / 8
                             for _ in range(n - 1)] for _ in range(depth)]
    elif kind == "real_amp":
        n, layers = draw(st.integers(2, 4)), draw(st.integers(1, 3))
        case["params"] = [[draw(st.integers(-8, 8)) / 8 for _ in range(n)]
                          for _ in range(layers)]
        case["entanglement"] = draw(st.sampled_from(
            ["full", "linear", "circular"]))
    elif kind == "random_tiling":
        case["n"] = draw(st.integers(1, 4))
        case["depth"] = draw(st.integers(0, 4))
    elif kind in ("circuit2zx",):
        from harness.props import c16
        case["d"] = draw(c16.zx_circuits(tier, max_boxes=6))
    elif kind in ("from_tk",):
        from harness.props import c13
        case["p"] = draw(c13.tk_programs(tier))
    elif kind == "rewire":
        from harness.props import c11
        case.update(draw(c11.rewire_cases(tier)))
        case["kind"] = kind
    elif kind in ("init_and_discard", "to_tk_post_processing"):
        from harness.props import c13
        case["d"] = draw(c13.export_circuits(tier))
    elif kind == "circuit_functor":
        case["d"] = draw(gen.diagrams("rigid", max_boxes=5, max_width=4,
                                      names=["n", "s"],
                                      kinds=("box", "cup", "cap", "swap")))
        case["ob"] = {"n": draw(st.integers(0, 2)),
                      "s": draw(st.integers(0, 2))}
    elif kind in ("jacobian", "grad"):
        from harness.props import c14, c15
        case["d"] = draw(c14.symbolic_circuits(
            tier, allow_mixed=False, exprs=c15.EXPRS, max_boxes=4,
            gates=["rot", "rot", "named", "scalar"]))
        case["vars"] = draw(st.lists(st.sampled_from(["u", "v"]),
                                     unique=True, max_size=2))
    elif kind == "from_pyzx":
        from harness.props import c17
        case["g"] = draw(c17.graph_cases(tier))
    return case


def check_translator(case):
    kind = case["kind"]
    out = []
    if kind == "iqp":
        from discopy.quantum import IQPansatz
        out.append(IQPansatz(case["n"], case["params"]))
    elif kind == "real_amp":
        import numpy as np
        from discopy.quantum.circuit import real_amp_ansatz
        out.append(real_amp_ansatz(np.array(case["params"]),
                                   entanglement=case["entanglement"]))
    elif kind == "random_tiling":
        from discopy.quantum.circuit import random_tiling
        from discopy.quantum.gates import CX, H, T, Rx, Rz
        out.append(random_tiling(case["n"], case["depth"], seed=case["seed"]))
        out.append(random_tiling(case["n"], case["depth"],
                                 gateset=[CX, H, T, Rx, Rz],
                                 seed=case["seed"]))
    elif kind == "circuit2zx":
        from discopy.quantum.zx import circuit2zx
        out.append(circuit2zx(specs.build(case["d"])))
    elif kind == "from_tk":
        from harness.props import c13
        from discopy.quantum.circuit import Circuit
        try:
            out.append(Circuit.from_tk(c13.build_tk(case["p"])))
        except NotImplementedError:
            return dict(nt=False, labels=[kind, "NotImplementedError"])
    elif kind == "rewire":
        from discopy.quantum.gates import rewire
        from discopy.quantum.circuit import qubit
        op = specs.build(case["op"])
        if not case["op"]["layers"] or len(op.cod) != 2:
            return dict(nt=False, labels=[kind, "n/a"])
        out.append(rewire(op, case["a"], case["b"], dom=qubit ** case["n"]))
    elif kind == "init_and_discard":
        d = specs.build(case["d"])
        out.append(d.init_and_discard())
        out.append(type(d).cups(d.cod[:2], d.cod[:2].r)
                   if len(d.cod) >= 1 else d)
    elif kind == "to_tk_post_processing":
        d = specs.build(case["d"])
        try:
            tk = d.to_tk()
        except (NotImplementedError, IndexError):
            return dict(nt=False, labels=[kind, "refused"])
        out.append(tk.post_processing)
    elif kind == "circuit_functor":
        from discopy import rigid
        from discopy.quantum import circuit, gates
        d = specs.build(case["d"])
        ob = {rigid.Ty(n): k for n, k in case["ob"].items()}
        F = circuit.Functor(
            ob, lambda box: circuit.Id(0).tensor(*[
                gates.Bra(0) for _ in range(len(F(box.dom)))]) >> circuit.Id(
                    0).tensor(*[gates.Ket(0) for _ in range(len(F(box.cod)))]))
        out.append(F(d))
    elif kind in ("jacobian", "grad"):
        from harness.props import c14
        d = specs.build(case["d"])
        variables = [c14.sym(v) for v in case["vars"]]
        try:
            out.append(d.jacobian(variables) if kind == "jacobian"
                       else d.grad(c14.sym("u")))
            out.append(d.grad(c14.sym("u"), mixed=False))
        except NotImplementedError:
            return dict(nt=False, labels=[kind, "NotImplementedError"])
    elif kind == "from_pyzx":
        from harness.props import c17
        from discopy.quantum.zx import Diagram
        g = dict(case["g"], bad=None)
        if not g["spiders"]:
            return dict(nt=False, labels=[kind, "empty"])
        graph, _ = c17.build_graph(g)
        out.append(Diagram.from_pyzx(graph))
    big = False
    for value in out:
        specs.well_typed(value, kind)
        if hasattr(value, "boxes") and len(value.boxes) >= 2:
            big = True
    return dict(nt=big, labels=[kind],
                show="{}: {}".format(kind, common.show(out[0], 200)))


core.PROPERTIES["C01"]["facets"]["translators"] = Facet(
    "translators", translator_cases, check_translator, n_quick=480,
    shards_quick=8, rule="outputs of ansaetze, circuit2zx, from_tk, "
    "from_pyzx, rewire, init_and_discard, circuit functors, gradients, "
    "jacobians and to_tk post-processing on generated inputs are re-scanned")
