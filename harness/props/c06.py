"""C06 Monoidal normal form is a sound, idempotent, canonical representative."""
import itertools

from hypothesis import strategies as st

from harness import core, specs, gen, common
from harness.core import Facet, Violation, require
from harness.props.c05 import arity_list, small_diagrams

RULE = ("connected diagrams from a constructive connected generator; for each, "
        "its interchanger-equivalence class by BFS with the model interchange "
        "(cap 3000, sampled when larger than 16 members); non-trivial = class "
        "size >= 3 and the input is not already normal")


@st.composite
def connected_diagrams(draw, cls="monoidal", max_boxes=7, max_width=6,
                       names=("a",), distinct_names=True):
    """ Each new box takes at least one wire produced by an earlier box. """
    name_st = st.sampled_from(list(names))
    dom = [[draw(name_st), 0] for _ in range(draw(st.integers(0, 2)))]
    scan = [(w, None) for w in dom]   # (wire, owner box or None)
    layers = []
    n = draw(st.integers(3, max_boxes))
    for k in range(n):
        owned = [i for i, (_, o) in enumerate(scan) if o is not None]
        if k == 0:
            nd = draw(st.integers(0, min(2, len(scan))))
            off = draw(st.integers(0, len(scan) - nd))
        else:
            if not owned:
                break
            w = draw(st.sampled_from(owned))
            nd = draw(st.sampled_from([1, 1, 1, 2, 2, 3]))
            nd = min(nd, len(scan))
            off = draw(st.integers(max(0, w - nd + 1),
                                   min(w, len(scan) - nd)))
        room = max_width - len(scan) + nd
        last = k == n - 1
        lo = 0 if last or len(owned) > 1 else 1
        hi = max(lo, min(3, room))
        nc = draw(st.sampled_from(
            [x for x in ([2, 3, 2, 1] if k < 2 else [0, 1, 1, 2, 2])
             if lo <= x <= hi] or [lo]))
        cod = [[draw(name_st), 0] for _ in range(nc)]
        b = {"k": "box", "name": "f%d" % k if distinct_names
             else draw(st.sampled_from(["f", "g"])),
             "dom": [list(w) for w, _ in scan[off:off + nd]], "cod": cod,
             "dag": False}
        if draw(st.integers(0, 4)) == 0:
            b["dag"] = True
        layers.append([b, off])
        scan = scan[:off] + [(w, k) for w in cod] + scan[off + nd:]
    return {"cls": cls, "dom": dom, "layers": layers}


def bkey(bx):
    """ Class-agnostic key of a box (flatten turns rigid swaps into monoidal
    ones): kind, name, types, dagger flag. """
    return repr(specs.lib_box_key(bx))


def spec_ars(spec):
    return [(len(specs.bdom(b)), len(specs.bcod(b)), off)
            for b, off in spec["layers"]]


def member_spec(spec, state):
    return common.permute_layers(
        spec, [s[0] for s in state], [s[3] for s in state])


class StepCap(Exception):
    pass


def capped_nf(d, left, cap):
    """ d.normal_form(left=left) with the class's own normalizer wrapped in a
    step counter, so that termination is decided by a step cap, not by time.
    Raises StepCap when more than `cap` rewrite steps are yielded. """
    normalize = type(d).normalize

    def normalizer(diagram, **params):
        for n, step in enumerate(normalize(diagram, **params)):
            if n >= cap:
                raise StepCap()
            yield step
    return d.normal_form(normalizer=normalizer, left=left)


def check_steps(d, left, cap):
    """ Every item yielded by normalize differs from its predecessor by one
    legal adjacent interchange. Returns (last, n_steps). """
    prev, n = d, 0
    for step in itertools.islice(d.normalize(left=left), cap + 1):
        n += 1
        require(n <= cap, "C06:non-termination", lambda: "normalize of {} "
                "yields more than {} steps".format(d, cap))
        specs.well_typed(step, "normalize step")
        # a rewrite of a diagram of some class is a diagram of that class
        # (with its methods: eval, normal_form, draw, ...)
        require(isinstance(step, type(d)) or not type(d).__name__ == "Diagram",
                "C06:step-of-another-class", lambda: "{} step of a {}.{}"
                .format(type(step).__module__, type(d).__module__,
                        type(d).__name__))
        a, b = arity_list(prev), arity_list(step)
        pb, sb = prev.boxes, step.boxes
        diff = [i for i in range(len(pb)) if pb[i] is not sb[i]]
        ok = len(pb) == len(sb) and len(diff) == 2\
            and diff[1] == diff[0] + 1\
            and pb[diff[0]] is sb[diff[1]] and pb[diff[1]] is sb[diff[0]]
        if ok:
            i = diff[0]
            legal = [a[:i] + [lo, up] + a[i + 2:]
                     for lo, up in specs.model_swap(a[i], a[i + 1])]
            ok = b in legal
        elif len(pb) == len(sb) and not diff:
            # equal boxes swapped (same object twice): accept offsets check
            ok = any(a[:i] + [lo, up] + a[i + 2:] == b
                     for i in range(len(a) - 1)
                     for lo, up in specs.model_swap(a[i], a[i + 1])
                     if pb[i] is pb[i + 1])
        require(ok, "C06:step-not-a-legal-interchange",
                lambda: "{} -> {}".format(prev, step))
        prev = step
    return prev, n


def nf_checks(spec, left, interp, via_subs=False):
    """ (1)-(4) on one diagram; returns its normal form. With via_subs the
    diagram first goes through a substitution (same shape, new boxes): values
    left behind by other public operations normalise like fresh ones. """
    d = specs.build(spec)
    if via_subs:
        d, _ = common.substituted(d)
    n = len(d)
    cap = 10 * n ** 3 + 100
    last, nsteps = check_steps(d, left, cap)
    try:
        nf = capped_nf(d, left, cap)
    except NotImplementedError as exc:
        raise Violation("C06:connected-reported-as-disconnected",
                        "{}: {}".format(d, exc))
    except StepCap:
        raise Violation("C06:non-termination", "normal_form of {} takes more "
                        "than {} steps".format(d, cap))
    specs.well_typed(nf, "normal form")
    require(isinstance(nf, type(d)) or not type(d).__name__ == "Diagram",
            "C06:step-of-another-class", lambda: "{} normal form of a {}.{}"
            .format(type(nf).__module__, type(d).__module__,
                    type(d).__name__))
    require(nf == last and specs.dkey(nf) == specs.dkey(last),
            "C06:normal_form-vs-last-step", lambda: "{} vs {}".format(
                nf, last))
    require(sorted(map(id, nf.boxes)) == sorted(map(id, d.boxes))
            and specs.tkey(nf.dom) == specs.tkey(d.dom)
            and specs.tkey(nf.cod) == specs.tkey(d.cod),
            "C06:boxes-or-type-changed", lambda: "{} -> {}".format(d, nf))
    try:
        again = capped_nf(nf, left, cap)
    except (StepCap, NotImplementedError) as exc:
        raise Violation("C06:not-idempotent", "normal_form of the normal "
                        "form {} : {!r}".format(nf, exc))
    require(again == nf and specs.dkey(again) == specs.dkey(nf),
            "C06:not-idempotent", lambda: "{} -> {}".format(nf, again))
    require(list(itertools.islice(nf.normalize(left=left), 1)) == [],
            "C06:normal-form-has-moves", lambda: str(nf))
    # the same through the default normalizer (termination is established),
    # then with the other flag on the same diagram: the answer depends on the
    # flag of this call, not on what was asked before
    direct = d.normal_form(left=left) if left else d.normal_form()
    require(direct == nf and specs.dkey(direct) == specs.dkey(nf),
            "C06:default-normalizer-differs", lambda: "{}: {} vs {}".format(
                d, direct, nf))
    try:
        other = capped_nf(d, not left, cap)
    except (StepCap, NotImplementedError) as exc:
        raise Violation("C06:other-direction-fails", "{} with left={}: {!r}"
                        .format(d, not left, exc))
    direct = (common.substituted(specs.build(spec))[0] if via_subs
              else specs.build(spec)).normal_form(left=not left)
    require(direct == other and specs.dkey(direct) == specs.dkey(other),
            "C06:normal-form-depends-on-earlier-calls",
            lambda: "{} with left={}: {} vs {}".format(
                d, not left, direct, other))
    if interp is not None:
        dims, arrays = interp
        order = [next(k for k, bx in enumerate(d.boxes) if bx is x
                      and k not in ())
                 for x in nf.boxes] if len(set(map(id, d.boxes))) == n\
            else None
        if order is not None:
            before = specs.ref_eval(spec, dims, arrays)
            after = specs.ref_eval(common.permute_layers(
                spec, order, nf.offsets), dims, arrays)
            require(common.exact_equal(before, after),
                    "C06:denotation-changed", lambda: "{} -> {}".format(d, nf))
    return d, nf, nsteps


@st.composite
def class_cases(draw, tier):
    big = tier == "thorough"
    cls = draw(st.sampled_from(["monoidal", "rigid"]))
    spec = draw(connected_diagrams(
        cls, max_boxes=8 if big else 7, max_width=6,
        names=draw(st.sampled_from([("a",), ("a", "b")])),
        distinct_names=draw(st.booleans())))
    interp = draw(gen.interpretations([spec], max_dim=2))
    return {"d": spec, "left": draw(st.booleans()), "interp": interp,
            "via_subs": draw(st.integers(0, 3)) == 0,
            "picks": draw(st.lists(st.integers(0, 10 ** 6), min_size=12,
                                   max_size=12))}


def check_class(case):
    spec, left = case["d"], case["left"]
    ars = spec_ars(spec)
    if not specs.connected(len(spec["dom"]), ars):
        raise core.HarnessError("connected generator gave a disconnected "
                                "diagram")
    interp = common.arrays_of(case["interp"]) if case.get("interp") else None
    states, capped = specs.model_class(len(spec["dom"]), ars, cap=3000)
    states = sorted(states)
    # the generated order is mostly normal already: start from a member
    start = states[case["picks"][0] % len(states)]
    spec = member_spec(spec, start)
    via_subs = bool(case.get("via_subs"))
    d, nf, nsteps = nf_checks(spec, left, None if via_subs else interp,
                              via_subs)
    if via_subs:
        return dict(nt=nsteps > 0, labels=["via-subs", "steps%d" % min(
            nsteps, 5)], show=common.show(d, 150))
    if len(states) > 16:
        members = [states[p % len(states)] for p in case["picks"]]
    else:
        members = states
    ref = specs.dkey(nf)
    for state in members:
        other = specs.build(member_spec(case["d"], state))
        try:
            onf = capped_nf(other, left, 10 * len(other) ** 3 + 100)
        except NotImplementedError as exc:
            raise Violation("C06:connected-reported-as-disconnected",
                            "{}: {}".format(other, exc))
        except StepCap:
            raise Violation("C06:non-termination", "normal_form of {}".format(
                other))
        # compare through names: boxes are distinct objects per build
        require(specs.dkey(onf) == ref and onf == nf, "C06:not-canonical",
                lambda: "{} and {} are interchanger-equivalent but have "
                "normal forms {} and {} (left={})".format(
                    d, other, nf, onf, left))
    return dict(nt=len(states) >= 3 and nsteps > 0,
                labels=["class%d" % min(len(states), 20) if len(states) < 20
                        else "class20+", "capped" if capped else "full",
                        "steps%d" % min(nsteps, 5)],
                show="{} (class of {}) -> {}".format(
                    common.show(d, 150), len(states), common.show(nf, 150)))


@st.composite
def disconnected_cases(draw, tier):
    cls = draw(st.sampled_from(["monoidal", "rigid"]))
    spec = draw(gen.diagrams(cls, max_boxes=6, max_width=5, names=["a", "b"],
                             kinds=("box", "dagger", "swap")))
    interp = draw(gen.interpretations([spec], max_dim=2))
    return {"d": spec, "left": draw(st.booleans()), "interp": interp}


def check_disconnected(case):
    spec, left = case["d"], case["left"]
    d = specs.build(spec)
    conn = specs.connected(len(spec["dom"]), spec_ars(spec))
    # names need not be distinct here: give boxes distinct identities
    cap = 10 * len(d) ** 3 + 100 if conn else 20000
    try:
        nf = capped_nf(d, left, cap)
    except NotImplementedError:
        require(not conn, "C06:connected-reported-as-disconnected", str(d))
        return dict(nt=True, labels=["NotImplementedError"],
                    show=common.show(d))
    except StepCap:
        require(not conn, "C06:non-termination", str(d))
        raise Violation("C06:non-termination-not-reported",
                        "normal_form of the disconnected {} neither returns "
                        "nor raises NotImplementedError within {} steps"
                        .format(d, cap))
    specs.well_typed(nf, "normal form")
    require(sorted(map(bkey, nf.boxes)) == sorted(map(bkey, d.boxes)),
            "C06:boxes-changed", lambda: "{} -> {}".format(d, nf))
    try:
        again = capped_nf(nf, left, cap)
    except (StepCap, NotImplementedError) as exc:
        raise Violation("C06:not-idempotent", "{} : {!r}".format(nf, exc))
    require(again == nf, "C06:not-idempotent", lambda: "{} -> {}".format(
        nf, again))
    check_steps(d, left, cap)
    return dict(nt=not conn, labels=["connected" if conn else "disconnected"],
                show=common.show(d))


@st.composite
def foliation_cases(draw, tier):
    cls = draw(st.sampled_from(["monoidal", "rigid"]))
    spec = draw(gen.diagrams(cls, max_boxes=7, max_width=5, names=["a", "b"],
                             kinds=("box", "dagger", "swap")))
    interp = draw(gen.interpretations([spec], max_dim=2))
    return {"d": spec, "interp": interp}


def check_foliation(case):
    spec = case["d"]
    d = specs.build(spec)
    n = len(d)
    steps = list(itertools.islice(d.foliate(), 10 * n ** 2 + 20))
    prev = d
    for step in steps:
        specs.well_typed(step, "foliate step")
        require(sorted(map(id, step.boxes)) == sorted(map(id, d.boxes)),
                "C06:foliate-boxes", "")
        prev = step
    fol = d.foliation()
    specs.well_typed(fol, "foliation")
    flat = fol.flatten()
    specs.well_typed(flat, "flatten")
    require(sorted(map(bkey, flat.boxes)) == sorted(map(bkey, d.boxes))
            and specs.tkey(flat.dom) == specs.tkey(d.dom)
            and specs.tkey(flat.cod) == specs.tkey(d.cod),
            "C06:flatten-boxes", lambda: "{} -> {}".format(d, flat))
    require(d.depth() == len(fol.boxes), "C06:depth", "")
    for sl in fol.boxes:
        owners = ["in"] * len(sl.dom)
        for bx, off in zip(sl.boxes, sl.offsets):
            require(all(w == "in" for w in owners[off:off + len(bx.dom)]),
                    "C06:slice-not-depth-1", lambda: str(sl))
            owners = owners[:off] + ["out"] * len(bx.cod)\
                + owners[off + len(bx.dom):]
    if steps:
        require(steps[-1] == flat, "C06:last-foliate-step-vs-flatten",
                lambda: "{} vs {}".format(steps[-1], flat))
    # denotation: same boxes (by identity) in the flattened order
    if len(set(map(id, d.boxes))) == n and all(
            any(bx is x for x in d.boxes) for bx in prev.boxes):
        dims, arrays = common.arrays_of(case["interp"])
        order = [next(k for k, x in enumerate(d.boxes) if x is bx)
                 for bx in prev.boxes]
        before = specs.ref_eval(spec, dims, arrays)
        after = specs.ref_eval(common.permute_layers(
            spec, order, prev.offsets), dims, arrays)
        require(common.exact_equal(before, after),
                "C06:foliate-denotation", lambda: "{} -> {}".format(d, prev))
    return dict(nt=len(fol.boxes) < n and n >= 3,
                labels=["depth%d" % min(len(fol.boxes), 6)],
                show=common.show(d))


def enum_connected(tier):
    import itertools
    shapes = small_diagrams(4, 2, 3)
    if tier == "thorough":
        shapes = itertools.chain(shapes, (
            x for x in small_diagrams(5, 2, 2) if len(x[1]) == 5))
    for dom, layers in shapes:
        if len(layers) < 2 or not specs.connected(dom, layers):
            continue
        for same in (False, True):   # distinct boxes / equal boxes
            if same and len({(nd, nc) for nd, nc, _ in layers}) == len(
                    layers):
                continue             # no two boxes could be equal
            spec = {"cls": "monoidal", "dom": [["a", 0]] * dom, "layers": [
                [{"k": "box", "name": "f" if same else "f%d" % k,
                  "dom": [["a", 0]] * nd, "cod": [["a", 0]] * nc,
                  "dag": False}, off]
                for k, (nd, nc, off) in enumerate(layers)]}
            for left in (False, True):
                yield {"d": spec, "left": left, "picks": [0] * 12}


def check_enum(case):
    return check_class(case)


def spiral_spec(n, mirror, distinct):
    """ The spiral of arXiv:1804.07832 with n turns (a unit, n nested caps, a
    counit in the middle, n cups): its normalisation takes a number of
    interchanges cubic in n, and many more passes than it has boxes. """
    x = ["a", 0]
    width, layers = 0, []

    def add(name, nd, nc, off, k=""):
        nonlocal width
        layers.append([{"k": "box", "name": name + (str(k) if distinct else ""),
                        "dom": [x] * nd, "cod": [x] * nc, "dag": False}, off])
        width += nc - nd
    add("unit", 0, 1, 0)
    for i in range(n):
        add("cap", 0, 2, i, i)
    add("counit", 1, 0, n)
    for i in range(n):
        add("cup", 2, 0, n - i - 1, i)
    spec = {"cls": "monoidal", "dom": [], "layers": layers}
    if mirror:
        out = []
        for (b, off), scan in zip(layers, specs.scans(spec)):
            out.append([b, len(scan) - off - len(b["dom"])])
        spec = dict(spec, layers=out)
    return spec


def enum_spirals(tier):
    for n in range(1, 8 if tier == "thorough" else 6):
        for mirror in (False, True):
            for left in (False, True):
                for distinct in (False, True):
                    yield {"n": n, "mirror": mirror, "left": left,
                           "distinct": distinct}


def check_spiral(case):
    spec = spiral_spec(case["n"], case["mirror"], case["distinct"])
    left = case["left"]
    d, nf, nsteps = nf_checks(spec, left, None)
    # members of the class taken from the rewrite trace itself
    trace = list(itertools.islice(d.normalize(left=left), nsteps + 1))
    ref = specs.dkey(nf)
    for step in trace[::max(1, len(trace) // 6)]:
        member = specs.build(specs.spec_of(step, "monoidal"))
        try:
            onf = capped_nf(member, left, 10 * len(member) ** 3 + 100)
        except (StepCap, NotImplementedError) as exc:
            raise Violation("C06:not-canonical", "{}: {!r}".format(
                member, exc))
        require(specs.dkey(onf) == ref, "C06:not-canonical",
                lambda: "{} (a step of the normalisation of the spiral) has "
                "normal form {} instead of {}".format(member, onf, nf))
    return dict(nt=nsteps > 2 * len(d), labels=["spiral%d" % case["n"]],
                show="spiral({}) mirror={} left={}: {} steps".format(
                    case["n"], case["mirror"], left, nsteps))


core.register("C06", [
    Facet("classes", class_cases, check_class, n_quick=640, shards_quick=8,
          shards_thorough=16, n_thorough=500, rule=RULE),
    Facet("disconnected", disconnected_cases, check_disconnected,
          n_quick=300, shards_quick=2, rule="free generator (connected or "
          "not): result with the input's boxes, idempotent, legal steps, or "
          "NotImplementedError only when disconnected"),
    Facet("foliation", foliation_cases, check_foliation, n_quick=400,
          shards_quick=2, rule="foliate/foliation/flatten/depth on generated "
          "diagrams; non-trivial = some slice holds >= 2 boxes"),
    Facet("exhaustive", None, check_enum, enum=enum_connected,
          shards_quick=16, rule="all connected diagrams with <= 4 boxes, "
          "arities <= 2, width <= 3 (thorough: also 5 boxes, width <= 2), one "
          "wire type, both directions; whole classes by BFS"),
    Facet("spirals", None, check_spiral, enum=enum_spirals, shards_quick=16,
          rule="spirals with 1-5 turns (thorough: 7) and their mirror "
          "images, equal or distinct boxes, both directions: the worst case "
          "for the number of passes; non-trivial = more steps than twice the "
          "number of boxes"),
], rule=RULE, assumptions=[
    "interchanger-equivalence classes are enumerated with the harness model "
    "O3, not with the library's interchange",
    "'connected' = the box graph (boxes joined by wires) is connected"])
