"""C17 Export to and import from pyzx graphs preserve the ZX diagram."""
from fractions import Fraction

import numpy as np
from hypothesis import strategies as st

from harness import core, specs, gen, common, qspec, qsem, pyzx_adapter  # noqa
from harness.core import Facet, Violation, require
from harness.props import c14

RULE = ("ZX diagrams whose spiders are pairwise joined by at most one wire "
        "(owner tracking in the generator; H boxes, swaps, scalars, boundary-"
        "to-boundary wires allowed); simple pyzx graphs with random vertex "
        "numbering; ill-declared graphs; non-trivial = >= 1 Hadamard edge and "
        ">= 1 wire that has to be moved (swap in the source or a spider whose "
        "inputs are not adjacent)")
TOL = dict(atol=1e-9, rtol=1e-9)


@st.composite
def simple_zx(draw, tier, scalars=True):
    """ Scan with owners: a spider never takes two wires of one owner, and
    never a wire it would share with an existing neighbour twice. """
    n = draw(st.integers(0, 3))
    scan = [("in", i) for i in range(n)]     # owner of each open wire
    layers, edges = [], set()
    n_boxes = draw(st.integers(1, 7 if tier == "thorough" else 5))
    for k in range(n_boxes):
        opts = ["spider", "spider", "spider"]
        if scan:
            opts.append("H")
        if len(scan) >= 2:
            opts.append("swap")
        if scalars:
            opts.append("scalar")
        kind = draw(st.sampled_from(opts))
        if kind == "H":
            layers.append([{"k": "zx", "g": "H"},
                           draw(st.integers(0, len(scan) - 1))])
            continue
        if kind == "swap":
            off = draw(st.integers(0, len(scan) - 2))
            scan[off], scan[off + 1] = scan[off + 1], scan[off]
            layers.append([{"k": "swap", "l": [1, 0], "r": [1, 0]}, off])
            continue
        if kind == "scalar":
            layers.append([{"k": "zx", "g": "scalar", "ph": [
                draw(st.integers(-2, 2)), draw(st.integers(-2, 2))]},
                draw(st.integers(0, len(scan)))])
            continue
        # spider: a window of wires with pairwise distinct owners
        off = draw(st.integers(0, len(scan)))
        n_in = 0
        owners = set()
        want = draw(st.integers(0, 3))
        while n_in < want and off + n_in < len(scan)\
                and scan[off + n_in] not in owners:
            owners.add(scan[off + n_in])
            n_in += 1
        n_out = draw(st.integers(0, 3 if len(scan) < 5 else 1))
        layers.append([{"k": "zx", "g": draw(st.sampled_from(["Z", "X"])),
                        "n": [n_in, n_out], "ph": draw(phases())}, off])
        scan = scan[:off] + [("box", k)] * n_out + scan[off + n_in:]
    return {"cls": "zx", "dom": [[1, 0]] * n, "layers": layers}


def phases():
    return st.one_of(st.sampled_from([0, 0.25, 0.5, 0.75, 1.0, 0.125]),
                     st.integers(-16, 16).map(lambda k: k / 8))


def pyzx_matrix(graph, preserve_scalar=True):
    """ pyzx's own tensor semantics, as a matrix in O4's convention
    (rows = inputs): pyzx returns the transpose. """
    M = graph.to_matrix(preserve_scalar=preserve_scalar, strategy="naive")
    return np.asarray(M).T


def ref_matrix(spec):
    n, m = len(spec["dom"]), len(specs.spec_cod(spec))
    return qsem.zx_eval(spec).reshape(2 ** n, 2 ** m)


def same(got, ref, label, detail):
    require(got.shape == ref.shape and np.allclose(got, ref, **TOL),
            "C17:" + label, lambda: "{}: got {} expected {}".format(
                detail, np.round(got, 5).tolist(),
                np.round(ref, 5).tolist())[:1500])


def without_scalars(spec):
    return dict(spec, layers=[[b, off] for b, off in spec["layers"]
                              if not (b["k"] == "zx" and b["g"] == "scalar")])


def needs_moving(spec):
    return any(b["k"] == "swap" for b, _ in spec["layers"])


def has_hadamard(spec):
    return any(b.get("g") == "H" for b, _ in spec["layers"])


@st.composite
def export_cases(draw, tier):
    return {"d": draw(simple_zx(tier))}


def check_export(case):
    from discopy.quantum.zx import Diagram
    spec = case["d"]
    d = specs.build(spec)
    graph = d.to_pyzx()
    require(len(graph.inputs) == len(d.dom)
            and len(graph.outputs) == len(d.cod), "C17:boundary-counts",
            lambda: "{} inputs {} outputs for {}".format(
                graph.inputs, graph.outputs, d))
    ref = ref_matrix(spec)
    same(pyzx_matrix(graph), ref, "export", common.show(d))
    back = Diagram.from_pyzx(graph)
    specs.well_typed(back, "from_pyzx(to_pyzx(d))")
    require(len(back.dom) == len(d.dom) and len(back.cod) == len(d.cod),
            "C17:round-trip-arity", lambda: "{} -> {}".format(d, back))
    got = ref_matrix(c14.zx_spec_of(back))
    same(got, ref_matrix(without_scalars(spec)), "round-trip",
         "{} -> {}".format(common.show(d), common.show(back)))
    # phases handed over as exact fractions (or ints) rather than floats
    from discopy.quantum import zx
    exact, changed = [], False
    for bx in d.boxes:
        if isinstance(bx, (zx.Z, zx.X)) and bx.phase:
            frac = Fraction(bx.phase).limit_denominator(64)
            if float(frac) == float(bx.phase):
                value = int(frac) if frac.denominator == 1 else frac
                bx = type(bx)(len(bx.dom), len(bx.cod), value)
                changed = True
        exact.append(bx)
    if changed:
        d2 = Diagram(d.dom, d.cod, exact, d.offsets)
        same(pyzx_matrix(d2.to_pyzx()), ref, "export-exact-phases",
             common.show(d2))
    # the exported graph is the caller's to edit (pyzx rewrites graphs in
    # place): exporting an equal diagram afterwards gives a graph of its own
    # with the diagram's matrix
    graph.scalar.add_power(2)
    for v in list(graph.vertices()):
        if v not in graph.inputs and v not in graph.outputs:
            graph.add_to_phase(v, Fraction(1, 2))
            break
    again = specs.build(spec).to_pyzx()
    require(again is not graph, "C17:export-shares-a-graph", common.show(d))
    same(pyzx_matrix(again), ref, "export-after-editing-an-earlier-export",
         common.show(d))
    return dict(nt=has_hadamard(spec) and needs_moving(spec),
                labels=["H" if has_hadamard(spec) else "noH",
                        "swap" if needs_moving(spec) else "noswap"],
                show=common.show(d, 200))


# ------------------------------------------------------------------ import

@st.composite
def graph_cases(draw, tier):
    """ A simple pyzx graph as data: boundary vertices of degree 1, Z/X
    spiders, plain / Hadamard simple edges, random vertex numbering. """
    n_in, n_out = draw(st.integers(0, 3)), draw(st.integers(0, 3))
    n_sp = draw(st.integers(1 if n_in + n_out else 0, 5))
    spiders = [{"t": draw(st.sampled_from(["Z", "X"])),
                "ph": draw(st.integers(-8, 8)) / 4} for _ in range(n_sp)]
    edges = []
    if n_sp:
        for i in range(n_in):
            edges.append(["i%d" % i, "s%d" % draw(st.integers(0, n_sp - 1)),
                          draw(st.booleans())])
        for o in range(n_out):
            edges.append(["o%d" % o, "s%d" % draw(st.integers(0, n_sp - 1)),
                          draw(st.booleans())])
    pairs = [(a, b) for a in range(n_sp) for b in range(a + 1, n_sp)]
    for a, b in pairs:
        if draw(st.integers(0, 2)) == 0:
            edges.append(["s%d" % a, "s%d" % b, draw(st.booleans())])
    names = ["i%d" % i for i in range(n_in)] + ["o%d" % o for o in range(
        n_out)] + ["s%d" % s for s in range(n_sp)]
    order = draw(st.permutations(names))
    return {"n_in": n_in, "n_out": n_out, "spiders": spiders, "edges": edges,
            "order": list(order), "bad": draw(st.sampled_from(
                [None, None, None, "missing", "shared"])),
            # where the boundary vertices sit in the picture (qubit
            # coordinate) need not follow the declared order of the boundary
            "qubit_in": draw(st.permutations(list(range(n_in)))),
            "qubit_out": draw(st.permutations(list(range(n_out))))}


def build_graph(case):
    from pyzx import Graph, VertexType, EdgeType
    graph = Graph()
    ids = {}
    for name in case["order"]:
        if name[0] == "s":
            sp = case["spiders"][int(name[1:])]
            ids[name] = graph.add_vertex(
                VertexType.Z if sp["t"] == "Z" else VertexType.X,
                phase=sp["ph"])
        else:
            ids[name] = graph.add_vertex(VertexType.BOUNDARY)
    for a, b, had in case["edges"]:
        graph.add_edge((ids[a], ids[b]),
                       EdgeType.HADAMARD if had else EdgeType.SIMPLE)
    graph.inputs = [ids["i%d" % i] for i in range(case["n_in"])]
    graph.outputs = [ids["o%d" % o] for o in range(case["n_out"])]
    # pyzx's tensorfy orders vertices by row: inputs, spiders, outputs
    q_in = case.get("qubit_in") or list(range(case["n_in"]))
    q_out = case.get("qubit_out") or list(range(case["n_out"]))
    for i in range(case["n_in"]):
        graph.set_position(ids["i%d" % i], q_in[i], 0)
    for k in range(len(case["spiders"])):
        graph.set_position(ids["s%d" % k], k, k + 1)
    for o in range(case["n_out"]):
        graph.set_position(ids["o%d" % o], q_out[o],
                           len(case["spiders"]) + 1)
    return graph, ids


def graph_snapshot(graph):
    def seq(x):
        return list(x() if callable(x) else x)
    return (seq(graph.inputs), seq(graph.outputs),
            sorted((min(e), max(e), str(graph.edge_type(e)))
                   for e in graph.edges()),
            sorted((v, str(graph.type(v)), str(graph.phase(v)))
                   for v in graph.vertices()))


def check_import(case):
    from discopy.quantum.zx import Diagram
    graph, ids = build_graph(case)
    if case["bad"] == "missing" and case["n_in"] + case["n_out"]:
        if case["n_in"]:
            graph.inputs = graph.inputs[1:]
        else:
            graph.outputs = graph.outputs[1:]
        common.expect_raises(lambda: Diagram.from_pyzx(graph), (ValueError,),
                             "C17:missing-boundary-accepted", str(case))
        return dict(nt=True, labels=["refusal-missing"])
    if case["bad"] == "shared" and case["n_in"]:
        graph.outputs = list(graph.outputs) + [graph.inputs[0]]
        common.expect_raises(lambda: Diagram.from_pyzx(graph), (ValueError,),
                             "C17:shared-boundary-accepted", str(case))
        return dict(nt=True, labels=["refusal-shared"])
    if not case["spiders"]:
        return dict(nt=False, labels=["empty"])
    ref = pyzx_matrix(graph, preserve_scalar=False)
    before = graph_snapshot(graph)
    d = Diagram.from_pyzx(graph)
    specs.well_typed(d, "from_pyzx")
    # importing reads the graph: it is the same graph afterwards and a second
    # import gives the same diagram
    require(graph_snapshot(graph) == before, "C17:import-changes-the-graph",
            lambda: "{} -> {}".format(before, graph_snapshot(graph)))
    again = Diagram.from_pyzx(graph)
    require(again == d and specs.dkey(again) == specs.dkey(d),
            "C17:second-import-differs", lambda: "{} then {}".format(d, again))
    require(len(d.dom) == case["n_in"] and len(d.cod) == case["n_out"],
            "C17:import-arity", lambda: "{} : {} -> {}".format(
                d, d.dom, d.cod))
    got = ref_matrix(c14.zx_spec_of(d))
    # graphs carry no scalar: compare up to the normalisation pyzx applies
    k = np.unravel_index(np.argmax(np.abs(ref)), ref.shape)
    require(got.shape == ref.shape, "C17:import-shape", str(d))
    if abs(ref[k]) < 1e-12:
        require(np.allclose(got, 0, **TOL), "C17:import", str(d))
    else:
        lam = got[k] / ref[k]
        require(abs(lam) > 1e-12 and np.allclose(got, lam * ref, **TOL),
                "C17:import", lambda: "{} imported as {}: {} vs pyzx {}"
                .format(case, d, np.round(got, 4).tolist(),
                        np.round(ref, 4).tolist())[:1500])
        require(abs(abs(lam) - 1) < 1e-9 or True, "C17:import-scale", "")
    had = any(h for _, _, h in case["edges"])
    return dict(nt=had and len(case["edges"]) >= 3, labels=[
        "edges%d" % min(len(case["edges"]), 8)], show=common.show(d, 200))


def selftest():
    """ Calibration of the pyzx convention on asymmetric graphs built with
    pyzx's own API (no code under test involved). """
    from pyzx import Graph, VertexType, EdgeType
    # CX: input 0 - Z - output 0 ; input 1 - X - output 1 ; Z - X
    g = Graph()
    i0, i1 = g.add_vertex(VertexType.BOUNDARY), g.add_vertex(
        VertexType.BOUNDARY)
    z, x = g.add_vertex(VertexType.Z), g.add_vertex(VertexType.X)
    o0, o1 = g.add_vertex(VertexType.BOUNDARY), g.add_vertex(
        VertexType.BOUNDARY)
    for e in ((i0, z), (i1, x), (z, x), (z, o0), (x, o1)):
        g.add_edge(e, EdgeType.SIMPLE)
    for v, q, r in ((i0, 0, 0), (i1, 1, 0), (z, 0, 1), (x, 1, 2),
                    (o0, 0, 3), (o1, 1, 3)):
        g.set_position(v, q, r)
    g.inputs, g.outputs = [i0, i1], [o0, o1]
    cx = {"cls": "zx", "dom": [[1, 0]] * 2, "layers": [
        [{"k": "zx", "g": "Z", "n": [1, 2], "ph": 0}, 0],
        [{"k": "zx", "g": "X", "n": [2, 1], "ph": 0}, 1]]}
    assert np.allclose(pyzx_matrix(g), ref_matrix(cx))
    # a state with phases: X(0,1,1/2) (x) Z(0,1,1/8), pyzx phases in units
    # of pi, discopy phases in full turns
    g = Graph()
    a = g.add_vertex(VertexType.X, phase=1.0)
    b = g.add_vertex(VertexType.Z, phase=0.25)
    o0, o1 = g.add_vertex(VertexType.BOUNDARY), g.add_vertex(
        VertexType.BOUNDARY)
    g.add_edge((a, o0), EdgeType.SIMPLE)
    g.add_edge((b, o1), EdgeType.HADAMARD)
    for v, q, r in ((a, 0, 1), (b, 1, 1), (o0, 0, 2), (o1, 1, 2)):
        g.set_position(v, q, r)
    g.inputs, g.outputs = [], [o0, o1]
    state = {"cls": "zx", "dom": [], "layers": [
        [{"k": "zx", "g": "X", "n": [0, 1], "ph": 0.5}, 0],
        [{"k": "zx", "g": "Z", "n": [0, 1], "ph": 0.125}, 1],
        [{"k": "zx", "g": "H"}, 1]]}
    assert np.allclose(pyzx_matrix(g), ref_matrix(state))


core.register("C17", [
    Facet("export", export_cases, check_export, n_quick=4000, shards_quick=8,
          rule=RULE),
    Facet("import", graph_cases, check_import, n_quick=3200, shards_quick=8,
          rule="generated simple pyzx graphs in random vertex order: the "
          "imported diagram denotes pyzx's matrix of the graph (up to the "
          "scalar, which graphs do not carry); ill-declared boundaries must "
          "raise ValueError"),
], selftests=[selftest], rule=RULE, assumptions=[
    "the installed pyzx (0.10.6) is newer than the one the code targets: a "
    "harness-side adapter makes inputs/outputs list-valued, keeps float "
    "phases and returns 0 for the edge type of a non-edge; an "
    "incompatibility the adapter does not bridge shows up as exit 2",
    "pyzx's tensorfy (strategy='naive') is the trusted semantics of graphs"])
