"""C19 Cartesian diagrams compute the function they draw."""
import itertools

from hypothesis import strategies as st

from harness import core, specs, gen, common, xspec
from harness.core import Facet, Violation, require

RULE = ("cartesian diagrams over boxes of arities 0-3 in and out whose "
        "functions return formal terms 'f.j(x1,...)' (bare value for one "
        "output, () for none, tuple otherwise), SWAP / COPY / DISCARD, and "
        "Swap(l, r), Copy(n), Discard(n) for l, r, n <= 4; compared with a "
        "string-term interpreter that splices outputs by offsets; "
        "non-trivial = >= 3 boxes including one of arity 0 and one of arity "
        ">= 2")


def tuplify(x):
    return x if isinstance(x, tuple) else (x,)


def ref_call(spec, inputs):
    """ O10: feed the inputs through the boxes in order, each applied to the
    wires at its offset, outputs spliced back in place. """
    vals = list(inputs)
    for b, off in spec["layers"]:
        n_in, n_out = b["n"]
        args = vals[off:off + n_in]
        name = b["name"]
        if name == "SWAP":
            outs = [args[1], args[0]]
        elif name == "COPY":
            outs = [args[0], args[0]]
        elif name == "DISCARD":
            outs = []
        else:
            outs = ["{}.{}({})".format(xspec.term_label(b), j,
                                       ",".join(map(str, args)))
                    for j in range(n_out)]
        vals = vals[:off] + outs + vals[off + n_in:]
    return tuple(vals)


@st.composite
def call_cases(draw, tier):
    spec = draw(gen.diagrams("cartesian", max_boxes=8 if tier == "thorough"
                             else 6, max_width=5, max_dom=4))
    return {"d": spec, "route": draw(st.sampled_from(["ctor", "whisker"])),
            "short": draw(st.booleans()),
            "vals": draw(st.lists(st.sampled_from(
                ["x", "x", "x", None, 0, 2.5, [3, 1], []]), min_size=4,
                max_size=4))}


def input_values(n, kinds, prefix="x"):
    """ Input i is the string "x<i>" unless the case asks for another Python
    value there (None, a number): any value may travel on a wire. """
    kinds = list(kinds or []) + ["x"] * n
    return tuple("%s%d" % (prefix, i) if kinds[i] == "x" else kinds[i]
                 for i in range(n))


def check_call(case):
    spec = case["d"]
    d = specs.build(spec, case["route"])
    n = len(spec["dom"])
    inputs = input_values(n, case.get("vals"))
    raw = d(*inputs)
    got = tuplify(raw)
    ref = ref_call(spec, inputs)
    require(got == ref, "C19:call", lambda: "{}({}) = {} expected {}".format(
        d, inputs, got, ref))
    # the documented convention: a bare value for one output
    require(raw == (ref[0] if len(ref) == 1 else ref), "C19:call-convention",
            lambda: "{}({}) returned {!r}".format(d, inputs, raw))
    # wrong number of inputs is refused
    bad = inputs[:-1] if case["short"] and n else inputs + ("extra",)
    common.expect_raises(lambda: d(*bad), (TypeError,),
                         "C19:wrong-input-length-accepted",
                         "{} called on {} values".format(d, len(bad)))
    # the functions themselves (the PRO the diagrams are interpreted in): a
    # composite that is composed further still computes what it computed
    from discopy.cartesian import Function
    v = inputs[0] if inputs else "v"
    f = Function(1, 2, xspec.term_function("p", 2))
    g = Function(2, 1, xspec.term_function("q", 1))
    h = Function(1, 1, xspec.term_function("r", 1))
    prefix = f >> g
    before = prefix(v)
    whole = prefix >> h >> f
    twice = prefix >> prefix
    expected = g(*f(v))
    require(before == expected and prefix(v) == expected,
            "C19:function-composite-changed-by-later-composition",
            lambda: "(f >> g)({!r}) = {!r} at first, {!r} after composing it "
            "further, expected {!r}".format(v, before, prefix(v), expected))
    require(whole(v) == f(h(expected)) and twice(v) == g(*f(expected)),
            "C19:function-composition", lambda: "{!r} / {!r}".format(
                whole(v), twice(v)))
    arities = [b["n"] for b, _ in spec["layers"]]
    return dict(nt=len(arities) >= 3 and any(0 in a for a in arities)
                and any(max(a) >= 2 for a in arities),
                labels=["boxes%d" % min(len(arities), 6)],
                show="{} on {} = {}".format(common.show(d, 150), inputs,
                                            got)[:400])


def enum_short_lived(tier):
    for shift in range(4 if tier == "quick" else 12):
        yield {"shift": shift, "n": 60 if tier == "quick" else 150}


def check_short_lived(case):
    """ Boxes and diagrams that live for one call only: made, called and
    dropped in a loop. Each computes its own function, whatever was evaluated
    before and wherever the interpreter puts it (the whole loop is one case,
    so that a failure is a function of the case alone). """
    import gc
    from discopy import cartesian
    shift = case["shift"]
    for k in range(case["n"]):
        n_in, n_out = (k + shift) % 3, ((k + shift) // 3) % 3
        fn = xspec.term_function("t%d" % k, n_out)
        args = tuple("v%d" % i for i in range(n_in))
        expected = fn(*args)
        fresh = cartesian.Box("t", n_in, n_out, fn)
        out = fresh(*args)
        require(out == expected, "C19:short-lived-box",
                lambda: "box {} of a loop, {} -> {}: returned {!r} expected "
                "{!r}".format(k, n_in, n_out, out, expected))
        if k % 2:
            out = (fresh >> cartesian.Id(n_out))(*args)
            require(out == expected, "C19:short-lived-diagram",
                    lambda: "diagram {} of a loop: returned {!r} expected "
                    "{!r}".format(k, out, expected))
        del fresh
        gc.collect()
    return dict(nt=True, labels=["loop"], show="{} boxes".format(case["n"]))


def enum_structural(tier):
    for none in (0, 1, 2):   # 0: strings; 1, 2: None on every other wire
        for l in range(5):
            for r in range(5):
                yield {"kind": "swap", "l": l, "r": r, "none": none}
        for n in range(5):
            yield {"kind": "copy", "n": n, "none": none}
            yield {"kind": "discard", "n": n, "none": none}


def with_none(xs, none):
    return tuple(None if none and i % 2 == none - 1 else x
                 for i, x in enumerate(xs))


def check_structural(case):
    from discopy import cartesian
    kind = case["kind"]
    if kind == "swap":
        l, r = case["l"], case["r"]
        d = cartesian.Swap(l, r)
        xs = with_none(tuple("a%d" % i for i in range(l)) + tuple(
            "b%d" % i for i in range(r)), case.get("none"))
        exp = xs[l:] + xs[:l]
        n = l + r
    elif kind == "copy":
        n = case["n"]
        d = cartesian.Copy(n)
        xs = with_none(tuple("a%d" % i for i in range(n)), case.get("none"))
        exp = xs + xs
    else:
        n = case["n"]
        d = cartesian.Discard(n)
        xs = with_none(tuple("a%d" % i for i in range(n)), case.get("none"))
        exp = ()
    specs.well_typed(d, kind)
    require(len(d.dom) == n and len(d.cod) == len(exp), "C19:types",
            lambda: "{} : {} -> {}".format(d, d.dom, d.cod))
    got = tuplify(d(*xs)) if len(exp) != 1 or True else d(*xs)
    require(tuple(got) == tuple(exp), "C19:" + kind,
            lambda: "{}({}) = {} expected {}".format(kind, xs, got, exp))
    return dict(nt=n >= 2, labels=[kind], show="{} {}".format(kind, case))


@st.composite
def naturality_cases(draw, tier):
    f = draw(gen.diagrams("cartesian", max_boxes=3, max_width=4, max_dom=2,
                          min_boxes=1))
    g = draw(gen.diagrams("cartesian", max_boxes=3, max_width=4, max_dom=2,
                          min_boxes=1))
    vals = st.lists(st.sampled_from(["x", "x", "x", None, 1, [2, 1]]),
                    min_size=2, max_size=2)
    return {"f": f, "g": g, "xs": draw(vals), "ys": draw(vals)}


def check_naturality(case):
    from discopy import cartesian
    sf, sg = case["f"], case["g"]
    f, g = specs.build(sf), specs.build(sg)
    nf, ng = len(sf["dom"]), len(sg["dom"])
    mf, mg = len(specs.spec_cod(sf)), len(specs.spec_cod(sg))
    xs = input_values(nf, case.get("xs"))
    ys = input_values(ng, case.get("ys"), "y")
    fx, gy = ref_call(sf, xs), ref_call(sg, ys)
    lhs = tuplify((f @ g >> cartesian.Swap(mf, mg))(*(xs + ys)))
    rhs = tuplify((cartesian.Swap(nf, ng) >> g @ f)(*(xs + ys)))
    require(lhs == rhs == gy + fx, "C19:swap-naturality",
            lambda: "{} vs {} expected {}".format(lhs, rhs, gy + fx))
    lhs = tuplify((f >> cartesian.Copy(mf))(*xs))
    rhs = tuplify((cartesian.Copy(nf) >> f @ f)(*xs))
    require(lhs == rhs == fx + fx, "C19:copy-naturality",
            lambda: "{} vs {} expected {}".format(lhs, rhs, fx + fx))
    lhs = tuplify((f >> cartesian.Discard(mf))(*xs))
    rhs = tuplify(cartesian.Discard(nf)(*xs))
    require(lhs == rhs == (), "C19:discard-naturality",
            lambda: "{} vs {}".format(lhs, rhs))
    # comonoid laws on the outputs of f
    lhs = tuplify((f >> cartesian.Copy(mf) >> cartesian.Id(mf)
                   @ cartesian.Discard(mf))(*xs))
    require(lhs == fx, "C19:counit", lambda: "{} vs {}".format(lhs, fx))
    return dict(nt=mf >= 2 and mg >= 1 and nf + ng >= 2,
                labels=["f%dx%d" % (nf, mf)],
                show="{} ; {}".format(common.show(f, 100), common.show(g, 100)))


def selftest():
    spec = {"cls": "cartesian", "dom": [[1, 0]] * 2, "layers": [
        [{"k": "fn", "name": "f", "n": [1, 2]}, 1],
        [{"k": "fn", "name": "SWAP", "n": [2, 2]}, 0],
        [{"k": "fn", "name": "g", "n": [0, 1]}, 3]]}
    assert ref_call(spec, ("a", "b")) == ("f.0(b)", "a", "f.1(b)", "g.0()")


core.register("C19", [
    Facet("short_lived", None, check_short_lived, enum=enum_short_lived,
          shards_quick=4, rule="loops of 60 boxes (and every other time a "
          "composite) made, called once and dropped, all arities 0-2"),
    Facet("call", call_cases, check_call, n_quick=1500, shards_quick=4,
          rule=RULE),
    Facet("structural", None, check_structural, enum=enum_structural,
          rule="Swap(l, r), Copy(n), Discard(n) for all l, r, n <= 4 permute "
          "/ duplicate / delete their inputs as a whole"),
    Facet("naturality", naturality_cases, check_naturality, n_quick=1000,
          shards_quick=2, rule="naturality of swap, copy and discard and the "
          "counit law on the outputs of generated diagrams"),
], selftests=[selftest], rule=RULE, assumptions=[
    "boxes return a bare value for one output, () for none and a tuple "
    "otherwise (the library's documented convention), or a 1-tuple for one "
    "output in the library's own `lambda *xs: tuple` style; inputs are "
    "strings, numbers, lists or None (any value except a tuple, which the "
    "tuple-or-single-value convention cannot carry on one wire)"])
