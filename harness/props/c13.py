"""C13 Translation to and from tket preserves the meaning of circuits."""
import numpy as np
from hypothesis import strategies as st

from harness import core, specs, gen, common, qspec, qsem, tksim, findings
from harness.core import Facet, Violation, require
from harness.props.c12 import init_and_discard_spec, bit_tensor

RULE = ("circuits over the exportable set (Ket, Bra, Bits(0), named gates, "
        "Rx, Rz, CRz, Controlled(named), Measure variants, Discard, scalars, "
        "classical gates, swaps) with preparations and post-selections at "
        "arbitrary depth, <= 5 wires; tket circuits over {H,S,T,X,Y,Z,CX,CZ,"
        "Rx,Rz,CRz,Measure} with arbitrary qubit/bit arguments; non-trivial = "
        "a preparation or post-selection strictly after the first gate, a "
        "two-qubit gate on non-adjacent tket qubits, or a post-processed "
        "measured bit")
TOL = dict(atol=1e-9, rtol=1e-9)


def same(got, ref, label, detail):
    got, ref = np.asarray(got, dtype=complex), np.asarray(ref, dtype=complex)
    require(got.size == ref.size and np.allclose(
        got.reshape(ref.shape), ref, **TOL), "C13:" + label,
        lambda: "{}: got {} expected {}".format(
            detail, np.round(got.flatten(), 6).tolist(),
            np.round(ref.flatten(), 6).tolist())[:1500])


@st.composite
def export_circuits(draw, tier):
    big = tier == "thorough"
    dom = draw(st.lists(st.sampled_from([["qubit", 0], ["qubit", 0],
                                         ["bit", 0]]), max_size=2))
    scan = [list(w) for w in dom]
    layers = []
    for _ in range(draw(st.integers(1, 10 if big else 7))):
        b, off = draw(qspec.circuit_layer(scan, 5, gateset="tk"))
        if skip(b):
            continue
        layers.append([b, off])
        scan = scan[:off] + specs.bcod(b) + scan[off + len(specs.bdom(b)):]
    return {"cls": "circuit", "dom": dom, "layers": layers}


def skip(b):
    """ Box-level generator exclusions for listed known findings. """
    g = b.get("g")
    if findings.active("controlled-y-layout", "C13") and g == "C"\
            and b["a"][0]["g"] == "Y":
        return True
    return False


CLASSICAL = ("CGate", "Copy", "Match")


def is_classical_pp(b):
    return b.get("g") in CLASSICAL or b.get("g") == "Bits" and b.get("dag")\
        or b.get("g") == "Discard" and "bit" in b["a"]\
        or b["k"] == "swap" and b["l"][0] == b["r"][0] == "bit"


def k1_classical_then_register(spec):
    """ Known finding to-tk-classical-then-register: classical post-
    processing followed later by an overriding measurement or a bit
    preparation (the exporter's register bookkeeping is then stale). """
    seen = False
    for b, _ in spec["layers"]:
        if seen and (b.get("g") == "Measure" and b["a"][2]
                     or b.get("g") == "Bits" and not b.get("dag")):
            return True
        seen = seen or is_classical_pp(b)
    return False


def k6_bits_after_bits(spec):
    """ Known finding to-tk-bits-prep-position: a bit preparation while a bit
    wire exists to its right, or while the exporter's list of live classical
    registers is not increasing along the wires (bits measured out of wire
    order): `prepare_bits` then renames registers of wires to the left of the
    new bit. The list is simulated as the exporter keeps it. """
    if spec["dom"]:   # the exporter first prepares the inputs, left to right
        spec = init_and_discard_spec(spec)
    scans = specs.scans(spec)
    bits, n_bits = [], 0
    for (b, off), scan in zip(spec["layers"], scans):
        g = b.get("g")
        left = sum(1 for w in scan[:off] if w[0] == "bit")
        if left > len(bits):
            raise core.HarnessError("register simulation out of step")
        if g == "Bits" and not b.get("dag"):
            k = len(b["a"])
            if any(w[0] == "bit" for w in scan[off:]):
                return True
            start = n_bits if not bits else 0 if not left\
                else bits[left - 1] + 1
            if any(x >= start for x in bits[:left])\
                    or any(x < start for x in bits[left:]):
                return True
            bits = bits[:left] + list(range(start, start + k))\
                + [x + k for x in bits[left:]]
            n_bits += k
        elif g == "Bra":
            n_bits += len(b["a"])
        elif g == "Measure" and not b["a"][2]:
            k, destructive = b["a"][0], b["a"][1]
            for j in range(k):
                bits = bits[:left + j] + [n_bits] + bits[left + j:]
                n_bits += 1
        elif is_classical_pp(b):
            return False   # classical post-processing: the other finding
    return False


def k7_post_selection_index(spec):
    """ Known finding from-tk-post-selection-index: the exported circuit has
    a post-selected bit and another bit. """
    has_bra = any(b.get("g") == "Bra" for b, _ in spec["layers"])
    other = any(b.get("g") in ("Measure", "Bits") for b, _ in spec["layers"])\
        or any(w[0] == "bit" for w in spec["dom"])
    return has_bra and other


def excluded(spec):
    return findings.active("to-tk-classical-then-register", "C13")\
        and k1_classical_then_register(spec)\
        or findings.active("to-tk-bits-prep-position", "C13")\
        and k6_bits_after_bits(spec)


@st.composite
def phased_circuits(draw, tier, small=False):
    """ Preparations and consumptions interleaved with gates on
    distinguishable wires: prepare, act, consume one qubit (post-select /
    discard / measure), prepare another one somewhere, act, ..., measure. """
    scan, layers = [], []

    def add(b, off):
        layers.append([b, off])
        scan[off:off + len(specs.bdom(b))] = specs.bcod(b)

    def qubits():
        return [i for i, w in enumerate(scan) if w[0] == "qubit"]

    def unitaries(k):
        for _ in range(k):
            qs = qubits()
            adj = [i for i in qs if i + 1 < len(scan)
                   and scan[i + 1][0] == "qubit"]
            if not qs:
                return
            kind = draw(st.sampled_from(
                ["one", "one", "rot"] + (["two", "two", "swap"] if adj
                                         else [])))
            if kind == "one":
                add({"k": "g", "g": draw(st.sampled_from(
                    ["X", "H", "Z", "Y", "S", "T"]))},
                    draw(st.sampled_from(qs)))
            elif kind == "rot":
                add({"k": "g", "g": draw(st.sampled_from(["Rx", "Rz"])),
                     "a": [draw(st.integers(-8, 8)) / 8]},
                    draw(st.sampled_from(qs)))
            elif kind == "two":
                add({"k": "g", "g": draw(st.sampled_from(["CX", "CZ"]))},
                    draw(st.sampled_from(adj)))
            else:
                off = draw(st.sampled_from(adj))
                add({"k": "swap", "l": scan[off], "r": scan[off + 1]}, off)
    n = draw(st.integers(2, 2 if small else 3))
    add({"k": "g", "g": "Ket", "a": [draw(st.integers(0, 1))
                                       for _ in range(n)]}, 0)
    unitaries(draw(st.integers(1, 3)))
    for _ in range(draw(st.integers(1, 1 if small else 2))):
        qs = qubits()
        if len(qs) >= 1 and len(scan) <= 4:
            q = draw(st.sampled_from(qs))
            kind = draw(st.sampled_from(["bra", "discard", "measure"]))
            if kind == "bra":
                add({"k": "g", "g": "Bra", "a": [draw(st.integers(0, 1))]}, q)
            elif kind == "discard":
                add({"k": "g", "g": "Discard", "a": ["qubit"]}, q)
            else:
                add({"k": "g", "g": "Measure", "a": [1, True, False]}, q)
        if len(scan) <= 4:
            add({"k": "g", "g": "Ket", "a": [draw(st.integers(0, 1))]},
                draw(st.integers(0, len(scan))))
        unitaries(draw(st.integers(0, 2)))
    for q in reversed(qubits()):
        if draw(st.integers(0, 4)) > 0:
            add({"k": "g", "g": "Measure", "a": [1, True, False]}, q)
    return {"cls": "circuit", "dom": [], "layers": layers}


@st.composite
def measure_blocks(draw, tier, small=False):
    """ Distinguishable qubits measured in blocks (Measure(k), k >= 1,
    destructive or not), then bit swaps, overriding re-measurements and
    unitaries on surviving qubits: exercises the classical-register
    bookkeeping of the exporter. """
    n = draw(st.integers(2, 3 if small else 4))
    cap = 4 if small else 7
    scan, layers = [], []

    def add(b, off):
        layers.append([b, off])
        scan[off:off + len(specs.bdom(b))] = specs.bcod(b)

    add({"k": "g", "g": "Ket", "a": [0] * n}, 0)
    angles = draw(st.permutations([1, 2, 3, 5, 6]))
    for i in range(n):
        if draw(st.integers(0, 3)):
            add({"k": "g", "g": "Rx", "a": [angles[i] / 8]}, i)
        else:
            add({"k": "g", "g": "X"}, i)
    fresh = set(range(n))   # positions of qubits not yet measured
    for _ in range(draw(st.integers(1, 3))):
        starts = sorted(fresh)
        if not starts:
            break
        off = draw(st.sampled_from(starts))
        k = 1
        while off + k in fresh and draw(st.integers(0, 2)):
            k += 1
        destructive = len(scan) + k > cap or draw(st.integers(0, 2)) > 0
        add({"k": "g", "g": "Measure", "a": [k, destructive, False]}, off)
        shift = 0 if destructive else k
        fresh = {p if p < off else p + shift for p in fresh
                 if not off <= p < off + k}
    # sometimes: two adjacent qubits post-selected at once, then a bit
    # prepared right after the live bits (the post-selected registers, which
    # are dead but still there, have to make room)
    if draw(st.integers(0, 3)) == 0:
        pairs = [i for i in range(len(scan) - 1)
                 if scan[i][0] == scan[i + 1][0] == "qubit"]
        if pairs and len(scan) < cap:
            off = draw(st.sampled_from(pairs))
            add({"k": "g", "g": "Bra", "a": [draw(st.integers(0, 1)),
                                             draw(st.integers(0, 1))]}, off)
            last = max([i + 1 for i, w in enumerate(scan) if w[0] == "bit"]
                       or [0])
            add({"k": "g", "g": "Bits", "a": [0]}, last)
    for _ in range(draw(st.integers(0, 4))):
        opts = []
        bits_adj = [i for i in range(len(scan) - 1)
                    if scan[i][0] == scan[i + 1][0] == "bit"]
        mixed_adj = [i for i in range(len(scan) - 1)
                     if scan[i][0] != scan[i + 1][0]]
        over = [(i, k) for i in range(len(scan)) for k in (1, 2, 3)
                if i + 2 * k <= len(scan)
                and all(w[0] == "qubit" for w in scan[i:i + k])
                and all(w[0] == "bit" for w in scan[i + k:i + 2 * k])]
        qs = [i for i, w in enumerate(scan) if w[0] == "qubit"]
        if bits_adj:
            opts += ["bswap", "bswap"]
        if mixed_adj:
            opts += ["mswap"]
        if over:
            opts += ["override", "override"]
        if qs:
            opts += ["gate", "bra", "bra"]
        if len(scan) < cap:
            opts += ["bits"]
        bs = [i for i, w in enumerate(scan) if w[0] == "bit"]
        if bs and qs:
            opts += ["bdiscard", "measure"]
        if not opts:
            break
        kind = draw(st.sampled_from(opts))
        if kind == "bdiscard":
            # a bit thrown away while qubits are alive (mostly to its right)
            left_of_qubit = [i for i in bs if any(q > i for q in qs)]
            add({"k": "g", "g": "Discard", "a": ["bit"]},
                draw(st.sampled_from(left_of_qubit or bs)))
        elif kind == "measure":
            add({"k": "g", "g": "Measure", "a": [1, True, False]},
                draw(st.sampled_from(qs)))
        elif kind == "bra":
            off = draw(st.sampled_from(qs))
            k = 1
            while off + k in qs and draw(st.booleans()):
                k += 1
            add({"k": "g", "g": "Bra", "a": [draw(st.integers(0, 1))
                                             for _ in range(k)]}, off)
        elif kind == "bits":
            # mostly to the right of every live bit (the position the
            # exporter handles), sometimes anywhere
            last = max([i + 1 for i, w in enumerate(scan) if w[0] == "bit"]
                       or [0])
            off = draw(st.integers(last, len(scan))) if draw(
                st.integers(0, 3)) else draw(st.integers(0, len(scan)))
            add({"k": "g", "g": "Bits", "a": [0]}, off)
        elif kind == "bswap":
            off = draw(st.sampled_from(bits_adj))
            add({"k": "swap", "l": scan[off], "r": scan[off + 1]}, off)
        elif kind == "mswap":
            off = draw(st.sampled_from(mixed_adj))
            add({"k": "swap", "l": scan[off], "r": scan[off + 1]}, off)
        elif kind == "override":
            off, k = draw(st.sampled_from(over))
            add({"k": "g", "g": "Measure",
                 "a": [k, draw(st.booleans()), True]}, off)
        else:
            add({"k": "g", "g": draw(st.sampled_from(["X", "H"]))},
                draw(st.sampled_from(qs)))
    return {"cls": "circuit", "dom": [], "layers": layers}


@st.composite
def qubit_blocks(draw, tier):
    """ Distinguishable qubits, then logical swaps, qubits prepared in the
    middle of the circuit (to the left of, between and to the right of the
    swapped ones), post-selected blocks and a few gates, all measured at the
    end: exercises the qubit-register bookkeeping of the exporter. """
    n = draw(st.integers(2, 3))
    scan, layers = [], []

    def add(b, off):
        layers.append([b, off])
        scan[off:off + len(specs.bdom(b))] = specs.bcod(b)

    add({"k": "g", "g": "Ket", "a": [0] * n}, 0)
    angles = draw(st.permutations([1, 2, 3, 5, 6, 7]))
    for i in range(n):
        if draw(st.integers(0, 3)):
            add({"k": "g", "g": "Rx", "a": [angles[i] / 8]}, i)
        else:
            add({"k": "g", "g": "X"}, i)
    for step in range(draw(st.integers(2, 5))):
        opts = ["gate"]
        if len(scan) >= 2:
            opts += ["qswap", "qswap", "cx"]
        if len(scan) < 5:
            opts += ["ket", "ket"]
        if len(scan) >= 2:
            opts += ["bra"]
        kind = draw(st.sampled_from(opts))
        if kind == "qswap":
            off = draw(st.integers(0, len(scan) - 2))
            add({"k": "swap", "l": scan[off], "r": scan[off + 1]}, off)
        elif kind == "cx":
            add({"k": "g", "g": "CX"}, draw(st.integers(0, len(scan) - 2)))
        elif kind == "ket":
            k = draw(st.integers(1, min(2, 5 - len(scan))))
            off = draw(st.integers(0, len(scan)))
            add({"k": "g", "g": "Ket", "a": [draw(st.integers(0, 1))
                                             for _ in range(k)]}, off)
            if draw(st.booleans()):
                add({"k": "g", "g": "Rx", "a": [angles[3 + step % 3] / 8]},
                    off)
        elif kind == "bra":
            off = draw(st.integers(0, len(scan) - 1))
            k = 1 + (off + 1 < len(scan) - 1 and draw(st.booleans()))
            add({"k": "g", "g": "Bra", "a": [draw(st.integers(0, 1))
                                             for _ in range(k)]}, off)
        else:
            add({"k": "g", "g": draw(st.sampled_from(["X", "H"]))},
                draw(st.integers(0, len(scan) - 1)))
        if not scan:
            break
    if scan and draw(st.integers(0, 3)):
        add({"k": "g", "g": "Measure", "a": [len(scan), True, False]}, 0)
    return {"cls": "circuit", "dom": [], "layers": layers}


@st.composite
def export_cases(draw, tier):
    spec = draw(st.one_of(export_circuits(tier), phased_circuits(tier),
                          measure_blocks(tier), qubit_blocks(tier)))
    # exclusion by construction: truncate before the first trigger
    while spec["layers"] and excluded(spec):
        spec = dict(spec, layers=spec["layers"][:-1])
    return {"d": spec}


@st.composite
def register_cases(draw, tier):
    """ Only the generator that stresses the classical-register bookkeeping
    (block measurements, post-selections, bit preparations, swaps, discards,
    overriding re-measurements). """
    spec = draw(st.one_of(measure_blocks(tier), measure_blocks(tier),
                          qubit_blocks(tier)))
    while spec["layers"] and excluded(spec):
        spec = dict(spec, layers=spec["layers"][:-1])
    return {"d": spec}


def classical_eval(diagram):
    """ Tensor (axes dom + cod) of a classical post-processing circuit, read
    from its boxes: ClassicalGate arrays, bit swaps, daggered Bits. """
    from discopy.quantum.circuit import Swap
    n = len(diagram.dom)
    T = np.eye(2 ** n).reshape((2,) * (2 * n))
    for box, off in zip(diagram.boxes, diagram.offsets):
        nd, nc = len(box.dom), len(box.cod)
        if isinstance(box, Swap):
            B = specs.swap_tensor(2, 2)
        else:
            arr = np.asarray(box.array, dtype=complex)
            if getattr(box, "is_dagger", False) and type(box).__name__ in (
                    "ClassicalGate",):
                arr = arr.reshape((2,) * (nc + nd))  # undaggered: cod -> dom
                arr = np.conj(np.moveaxis(arr, list(range(nc)), list(
                    range(nd, nd + nc))))
            B = arr.reshape((2,) * (nd + nc))
        T = specs.apply_tensor(T, n, off, B, nd)
    return T


def exported_distribution(tk):
    """ O7 on the exported circuit + recorded post-selection, scalar and
    classical post-processing -> tensor over the output bits. """
    dist = tksim.simulate(tk)
    n_bits = len(tk.bits)
    post = dict(tk.post_selection)
    keep = [i for i in range(n_bits) if i not in post]
    T = np.zeros((2,) * len(keep) or (), dtype=complex)
    for reg, prob in dist.items():
        if all(reg[i] == v for i, v in post.items()):
            T[tuple(reg[i] for i in keep)] += prob * tk.scalar
    pp = tk.post_processing
    require(len(pp.dom) == len(keep), "C13:post-processing-arity",
            lambda: "{} bits kept but post_processing has domain {}".format(
                len(keep), pp.dom))
    P = classical_eval(pp)
    m = len(keep)
    return np.tensordot(T, P, (list(range(m)), list(range(m)))) if m else\
        T * P


def nontrivial_export(spec):
    seen_gate = False
    for b, _ in spec["layers"]:
        g = b.get("g")
        if seen_gate and g in ("Ket", "Bra", "Bits"):
            return True
        if g in ("CGate", "Copy", "Match") or g == "Bits" and b.get("dag"):
            return any(x.get("g") == "Measure" for x, _ in spec["layers"])
        if b["k"] == "g" and g not in ("Ket", "Bits", "scalar"):
            seen_gate = True
    return False


def check_export(case):
    spec = case["d"]
    d = specs.build(spec)
    closed = init_and_discard_spec(spec)
    ref = qsem.distribution(closed)
    local = d.init_and_discard().eval(mixed=True)
    same(local.array, ref, "local-vs-reference", common.show(d))
    try:
        tk = d.to_tk()
    except NotImplementedError:
        return dict(nt=False, labels=["NotImplementedError"])
    got = exported_distribution(tk)
    same(got, ref, "export", "{} exported as {!r}".format(
        common.show(d), tk))
    # through a backend returning exact frequencies
    backend = tksim.exact_backend()
    same(d.eval(backend, n_shots=4096).array, ref, "eval-through-backend",
         common.show(d))
    counts = d.get_counts(tksim.exact_backend(), n_shots=4096)
    n_out = len(specs.spec_cod(closed))
    if not tk.post_processing:  # counts are taken before post-processing
        same(bit_tensor(counts, n_out), ref, "counts-through-backend",
             common.show(d))
    return dict(nt=nontrivial_export(spec), labels=sorted({
        b.get("g", "swap") for b, _ in spec["layers"]}),
        show="{} -> {!r}".format(common.show(d, 200), tk)[:400])


@st.composite
def roundtrip_cases(draw, tier):
    """ As export_cases, with fewer qubits: the imported circuit keeps every
    qubit alive to the end, so its evaluation grows with all of them. """
    spec = draw(st.one_of(export_circuits(tier),
                          phased_circuits(tier, small=True),
                          measure_blocks(tier, small=True)))
    while spec["layers"] and excluded(spec):
        spec = dict(spec, layers=spec["layers"][:-1])
    return {"d": spec}


def check_roundtrip(case):
    from discopy.quantum.circuit import Circuit
    spec = case["d"]
    d = specs.build(spec)
    ref = qsem.distribution(init_and_discard_spec(spec))
    try:
        tk = d.to_tk()
        recorded = (repr(tk), dict(tk.post_selection), tk.scalar,
                    repr(tk.post_processing))
        back = Circuit.from_tk(tk)
    except NotImplementedError:
        return dict(nt=False, labels=["NotImplementedError"])
    # importing reads the exported circuit, it does not use it up: what was
    # recorded is still there and a second import gives the same circuit
    require(recorded == (repr(tk), dict(tk.post_selection), tk.scalar,
                         repr(tk.post_processing)),
            "C13:import-changes-the-exported-circuit",
            lambda: "{} became {}".format(recorded, (
                repr(tk), dict(tk.post_selection), tk.scalar)))
    again = Circuit.from_tk(tk)
    require(again == back, "C13:second-import-differs",
            lambda: "{} then {}".format(back, again))
    specs.well_typed(back, "from_tk(to_tk(c))")
    same(back.eval(mixed=True).array, ref, "round-trip",
         "{} -> {!r} -> {}".format(common.show(d), tk, common.show(back)))
    return dict(nt=nontrivial_export(spec), labels=sorted({
        b.get("g", "swap") for b, _ in spec["layers"]}),
        show="{} -> {}".format(common.show(d, 150), common.show(back, 150)))


# ------------------------------------------------------------------ import

GATES1 = ["H", "S", "T", "X", "Y", "Z"]


@st.composite
def tk_programs(draw, tier, measure=True):
    big = tier == "thorough"
    n = draw(st.integers(1, 5 if not measure else 4 if big else 3))
    nb = draw(st.integers(0, 3 if big else 2)) if measure else 0
    ops = []
    for _ in range(draw(st.integers(1, 10 if big else 8))):
        kinds = ["g1", "g1", "rot"]
        if n >= 2:
            kinds += ["g2", "g2", "crz"]
        if nb:
            kinds += ["measure", "measure"]
        if draw(st.integers(0, 150)) == 0 and n >= 2:
            kinds = ["swap"]
        kind = draw(st.sampled_from(kinds))
        q = draw(st.sampled_from([0, n - 1] + list(range(n))))
        if kind == "g1":
            ops.append([draw(st.sampled_from(GATES1)), [], [q], []])
        elif kind == "rot":
            ops.append([draw(st.sampled_from(["Rx", "Rz"])),
                        [draw(st.integers(-16, 16)) / 8], [q], []])
        elif kind in ("g2", "crz", "swap"):
            q2 = draw(st.sampled_from(
                [x for x in [0, n - 1] + list(range(n)) if x != q]))
            if kind == "g2":
                ops.append([draw(st.sampled_from(["CX", "CZ"])), [], [q, q2],
                            []])
            elif kind == "crz":
                ops.append(["CRz", [draw(st.integers(-16, 16)) / 8], [q, q2],
                            []])
            else:
                ops.append(["SWAP", [], [q, q2], []])
        else:
            ops.append(["Measure", [], [q], [draw(st.integers(0, nb - 1))]])
    return {"n": n, "nb": nb, "ops": ops}


def build_tk(prog):
    import pytket
    circ = pytket.Circuit(prog["n"], prog["nb"])
    for name, params, qs, bs in prog["ops"]:
        getattr(circ, name)(*(params + qs + bs))
    return circ


def check_import(case):
    from discopy.quantum.circuit import Circuit
    prog = case["p"]
    tk = build_tk(prog)
    try:
        d = Circuit.from_tk(tk)
    except NotImplementedError:
        require(any(op[0] == "SWAP" for op in prog["ops"]),
                "C13:supported-gate-refused", repr(prog))
        return dict(nt=False, labels=["NotImplementedError"])
    specs.well_typed(d, "from_tk")
    require(len(d.dom) == 0 and specs.tkey(d.cod) == (("bit", 0),)
            * prog["nb"], "C13:import-types", lambda: "{} : {} -> {}".format(
                d, d.dom, d.cod))
    dist = tksim.simulate(tk)
    ref = np.zeros((2,) * prog["nb"] or ())
    for reg, prob in dist.items():
        ref[tuple(reg)] += prob
    same(d.eval(mixed=True).array, ref, "import-distribution",
         "{!r} imported as {}".format(prog["ops"], common.show(d)))
    distant = any(len(op[2]) == 2 and abs(op[2][0] - op[2][1]) != 1
                  or len(op[2]) == 2 and op[2][0] > op[2][1]
                  for op in prog["ops"])
    measured = any(op[0] == "Measure" for op in prog["ops"])
    return dict(nt=distant and measured, labels=[
        "measured" if measured else "unmeasured",
        "distant" if distant else "adjacent"],
        show=repr(prog["ops"])[:300])


def check_import_state(case):
    """ Measurement-free import: drop the trailing Discard layer and compare
    the pure state with tket's own statevector. Under the literal layout
    convention of C11 each Y gate contributes a sign (its array is laid out as
    the standard matrix in [input, output] index order and Y^T = -Y). """
    from discopy.quantum.circuit import Circuit, Discard
    prog = case["p"]
    tk = build_tk(prog)
    try:
        d = Circuit.from_tk(tk)
    except NotImplementedError:
        return dict(nt=False, labels=["NotImplementedError"])
    n = prog["n"]
    tail = d.boxes[len(d) - n:]
    require(len(d) >= n and all(isinstance(b, Discard) for b in tail),
            "C13:import-shape", lambda: "from_tk ends with {}".format(tail))
    pure = d[:len(d) - n]
    specs.well_typed(pure, "imported circuit without discards")
    state = np.asarray(pure.eval().array, dtype=complex).reshape(-1)
    sign = (-1) ** sum(1 for op in prog["ops"] if op[0] == "Y")
    same(state, sign * np.asarray(tk.get_statevector()), "import-statevector",
         "{!r} imported as {}".format(prog["ops"], common.show(pure)))
    distant = any(len(op[2]) == 2 and abs(op[2][0] - op[2][1]) != 1
                  for op in prog["ops"])
    return dict(nt=distant, labels=["distant" if distant else "adjacent"],
                show=repr(prog["ops"])[:300])


@st.composite
def import_cases(draw, tier):
    return {"p": draw(tk_programs(tier, measure=True))}


@st.composite
def state_cases(draw, tier):
    return {"p": draw(tk_programs(tier, measure=False))}


def selftest():
    """ O7 on a Bell pair and on a measure-overwrite sequence. """
    import pytket
    c = pytket.Circuit(2, 2).H(0).CX(0, 1).Measure(0, 0).Measure(1, 1)
    d = tksim.simulate(c)
    assert abs(d[(0, 0)] - .5) < 1e-12 and abs(d[(1, 1)] - .5) < 1e-12
    c = pytket.Circuit(2, 1).X(0).Measure(0, 0).Measure(1, 0)
    assert abs(tksim.simulate(c)[(0,)] - 1) < 1e-12
    c = pytket.Circuit(2).Y(0).CX(0, 1)
    state = tksim.simulate(c, return_state=True)[()]
    v = np.asarray(c.get_statevector())
    assert np.allclose(state, np.outer(v, v.conj()))


core.register("C13", [
    Facet("export", export_cases, check_export, n_quick=640, shards_quick=8,
          rule=RULE),
    Facet("export_registers", register_cases, check_export, n_quick=1200,
          shards_quick=8, rule="as export, with the generators that measure "
          "in blocks, post-select, prepare, swap, discard and override bits "
          "(classical-register bookkeeping of the exporter) or swap qubits, "
          "prepare qubits mid-circuit on either side of them and post-select "
          "blocks (qubit-register bookkeeping)"),
    Facet("roundtrip", roundtrip_cases, check_roundtrip, n_quick=300,
          shards_quick=4, rule="from_tk(to_tk(c)) is well-typed and has "
          "c's mixed evaluation"),
    Facet("import", import_cases, check_import, n_quick=300, shards_quick=4,
          rule="tket circuits with measurements into arbitrary bits: the "
          "import's mixed evaluation equals O7's distribution over all bits"),
    Facet("import_state", state_cases, check_import_state, n_quick=800,
          shards_quick=4, rule="measurement-free tket circuits: imported "
          "pure state vs tket's get_statevector()"),
], selftests=[selftest], rule=RULE, assumptions=[
    "O7 uses tket's own gate unitaries and unit ordering",
    "statevector comparison holds up to the sign (-1)^(#Y) implied by the "
    "literal array layout fixed in C11",
    "NotImplementedError for gates outside the exportable set is a counted "
    "refusal"])
