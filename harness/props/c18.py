"""C18 Grammar front-ends only produce well-typed, grammatical derivations."""
import itertools

from hypothesis import strategies as st

from harness import core, specs, gen, common, xspec, findings
from harness.core import Facet, Violation, require

RULE = ("pregroup vocabularies built from a hidden grammatical skeleton and "
        "random ones; CFGs with generated productions (unproductive and "
        "recursive ones included); biclosed rule boxes and curryings over "
        "nested slash types; CCG trees with consistent category strings; "
        "non-trivial = a sentence with >= 2 cups, or a rule box over a slash "
        "type whose argument is itself a slash or composite type")
ATOMS = ["n", "s", "p"]


# ------------------------------------------------------------------ pregroup

@st.composite
def sentences(draw, tier):
    """ A list of word types whose concatenation reduces to the target by
    cups of adjacent (x, x.r) pairs; plus some random sentences. """
    target = [[draw(st.sampled_from(ATOMS)), 0]
              for _ in range(draw(st.integers(0, 2)))]
    if draw(st.integers(0, 4)) == 0:
        # a target that could itself be reduced further (x @ x.r inside)
        x = [draw(st.sampled_from(ATOMS)), draw(st.integers(-1, 1))]
        pos = draw(st.integers(0, len(target)))
        target = target[:pos] + [x, [x[0], x[1] + 1]] + target[pos:]
    wires = [list(w) for w in target]
    if draw(st.integers(0, 4)) > 0:
        for _ in range(draw(st.integers(0, 4))):
            pos = draw(st.integers(0, len(wires)))
            x = [draw(st.sampled_from(ATOMS)), draw(st.integers(-1, 1))]
            wires = wires[:pos] + [x, [x[0], x[1] + 1]] + wires[pos:]
    else:
        wires = draw(gen.types("rigid", 0, 5, ATOMS, 1))
    cuts = sorted(draw(st.lists(st.integers(0, len(wires)), max_size=3)))
    words, start = [], 0
    for k, cut in enumerate(cuts + [len(wires)]):
        words.append({"name": "w%d" % k, "cod": wires[start:cut]})
        start = cut
    return {"words": words, "target": target}


def reduces_to(wires, target):
    """ Does some sequence of adjacent (x, x.r) cancellations reach the
    target? (exhaustive search; harness side) """
    seen, todo = set(), [tuple(map(tuple, wires))]
    goal = tuple(map(tuple, target))
    while todo:
        cur = todo.pop()
        if cur == goal:
            return True
        if cur in seen or len(seen) > 2000:
            continue
        seen.add(cur)
        for i in range(len(cur) - 1):
            if cur[i][0] == cur[i + 1][0] and cur[i][1] + 1 == cur[i + 1][1]:
                todo.append(cur[:i] + cur[i + 2:])
    return False


def check_parse(d, words, target, what):
    """ d: empty domain, cod = target, the given words in order followed
    only by cups between adjacent adjoint types. """
    from discopy import rigid
    specs.well_typed(d, what)
    require(specs.tkey(d.dom) == (), "C18:parse-domain", str(d))
    require(specs.tkey(d.cod) == specs.skey_ty(target), "C18:parse-codomain",
            lambda: "{} has cod {} not {}".format(d, d.cod, target))
    boxes = d.boxes
    require(len(boxes) >= len(words), "C18:parse-words", str(d))
    offset = 0
    for k, (bx, w) in enumerate(zip(boxes, words)):
        require(bx.name == w["name"] and specs.tkey(bx.dom) == ()
                and specs.tkey(bx.cod) == specs.skey_ty(w["cod"])
                and d.offsets[k] == offset,
                "C18:parse-words", lambda: "word {} of {}".format(k, d))
        offset += len(w["cod"])
    n_cups = 0
    for bx in boxes[len(words):]:
        require(isinstance(bx, rigid.Cup), "C18:parse-non-cup-box",
                lambda: "{} in {}".format(bx, d))
        (l,), (r,) = specs.tkey(bx.left), specs.tkey(bx.right)
        require(l[0] == r[0] and l[1] + 1 == r[1], "C18:parse-cup-types",
                lambda: "{} in {}".format(bx, d))
        n_cups += 1
    return n_cups


def build_words(words):
    from discopy.grammar import Word
    return [Word(w["name"], specs.ty("rigid", w["cod"])) for w in words]


def check_eager(case):
    from discopy.grammar import eager_parse
    words, target = case["words"], case["target"]
    lib_words = build_words(words)
    wires = [x for w in words for x in w["cod"]]
    try:
        d = eager_parse(*lib_words, target=specs.ty("rigid", target))
    except NotImplementedError:
        return dict(nt=False, labels=[
            "refused-grammatical" if reduces_to(wires, target)
            else "refused-ungrammatical"])
    require(reduces_to(wires, target), "C18:parsed-ungrammatical",
            lambda: "{} -> {}".format(words, target))
    n_cups = check_parse(d, words, target, "eager_parse")
    return dict(nt=n_cups >= 2, labels=["cups%d" % min(n_cups, 4)],
                show=common.show(d, 200))


@st.composite
def vocab_cases(draw, tier):
    n, s = ["n", 0], ["s", 0]
    vocab = [{"name": "A", "cod": [n]},
             {"name": "V", "cod": [["n", 1], s]}]
    if draw(st.booleans()):
        vocab.append({"name": "M", "cod": [n, ["n", 1]]})
    extra = draw(st.lists(gen.types("rigid", 1, 3, ATOMS, 1), max_size=2))
    vocab += [{"name": "x%d" % k, "cod": t} for k, t in enumerate(extra)]
    order = draw(st.permutations(list(range(len(vocab)))))
    return {"vocab": [vocab[i] for i in order],
            "many": any(w["name"] == "M" for w in vocab)}


def check_brute_force(case):
    from discopy.grammar import brute_force
    vocab = case["vocab"]
    lib = build_words(vocab)
    by_name = {w["name"]: w for w in vocab}
    target = [["s", 0]]
    want = 3 if case["many"] else 1
    # step bound (not a time bound): count the parse attempts of the search
    from discopy.grammar import pregroup
    original, calls = pregroup.eager_parse, [0]
    cap = (len(vocab) + 1) ** 4

    class StepCap(Exception):
        pass

    def counting(*args, **kwargs):
        calls[0] += 1
        if calls[0] > cap:
            raise StepCap()
        return original(*args, **kwargs)
    pregroup.eager_parse = counting
    try:
        results = list(itertools.islice(
            brute_force(*lib, target=specs.ty("rigid", target)), want))
    except StepCap:
        raise Violation("C18:brute-force-missed", "no {} sentences within {} "
                        "parse attempts over {}".format(want, cap, vocab))
    finally:
        pregroup.eager_parse = original
    require(len(results) == want, "C18:brute-force-missed", str(vocab))
    cups = 0
    for d in results:
        names = [b.name for b in d.boxes if type(b).__name__ == "Word"]
        words = [by_name[n] for n in names]
        cups += check_parse(d, words, target, "brute_force")
    return dict(nt=cups >= 2, labels=["found%d" % len(results)],
                show=common.show(results[-1], 200))


# ------------------------------------------------------------------ CFG

@st.composite
def cfg_cases(draw, tier):
    symbols = ["S", "A", "B", "C"]
    prods = []
    for k in range(draw(st.integers(1, 6))):
        cod = draw(st.sampled_from(["S", "S", "A", "B", "C"]))
        dom = draw(st.lists(st.sampled_from(symbols), min_size=1,
                            max_size=3))
        prods.append({"name": "r%d" % k, "dom": dom, "cod": cod})
    for k, sym in enumerate(symbols):
        if draw(st.integers(0, 4)) > 0:   # most symbols have a terminal
            prods.append({"name": "w%d" % k, "dom": [], "cod": sym})
    order = draw(st.permutations(list(range(len(prods)))))
    prods = [prods[i] for i in order]
    return {"prods": prods, "start": draw(st.sampled_from(
        ["S", "S", "S", "A", "B"])),
            "max_sentences": draw(st.integers(1, 4)),
            "max_depth": draw(st.integers(1, 12)),
            "seed": draw(st.integers(0, 10 ** 6)),
            "remove_duplicates": draw(st.booleans()),
            "not_twice": draw(st.lists(st.integers(0, 9), max_size=2))}


def check_cfg(case):
    from discopy.grammar import CFG
    from discopy.grammar.cfg import Word
    from discopy.monoidal import Box, Ty
    boxes = []
    for p in case["prods"]:
        if p["dom"]:
            boxes.append(Box(p["name"], Ty(*p["dom"]), Ty(p["cod"])))
        else:
            boxes.append(Word(p["name"], Ty(p["cod"])))
    not_twice = [boxes[i % len(boxes)] for i in case["not_twice"]]
    grammar = CFG(*boxes)
    sentences_ = list(itertools.islice(grammar.generate(
        start=Ty(case["start"]), max_sentences=case["max_sentences"],
        max_depth=case["max_depth"], max_iter=40, seed=case["seed"],
        remove_duplicates=case["remove_duplicates"], not_twice=not_twice),
        200))
    require(len(sentences_) <= case["max_sentences"], "C18:cfg-too-many",
            "{} sentences".format(len(sentences_)))
    keys = []
    for d in sentences_:
        specs.well_typed(d, "CFG sentence")
        require(specs.tkey(d.dom) == ()
                and specs.tkey(d.cod) == ((case["start"], 0),),
                "C18:cfg-sentence-type", lambda: "{} : {} -> {}".format(
                    d, d.dom, d.cod))
        require(all(any(b is p for p in boxes) for b in d.boxes),
                "C18:cfg-foreign-box", str(d))
        require(len(d.boxes) <= case["max_depth"], "C18:cfg-depth",
                lambda: "{} boxes, max_depth {}".format(
                    len(d.boxes), case["max_depth"]))
        for p in not_twice:
            require(sum(1 for b in d.boxes if b is p) <= 1,
                    "C18:cfg-not-twice", str(d))
        # a derivation: every box rewrites the leftmost ... symbol; checked
        # by well-typedness plus single-symbol codomains
        keys.append(repr(specs.dkey(d)))
    if case["remove_duplicates"]:
        require(len(set(keys)) == len(keys), "C18:cfg-duplicates",
                str(sentences_))
    return dict(nt=any(len(d.boxes) >= 3 for d in sentences_),
                labels=["sentences%d" % len(sentences_)],
                show="; ".join(common.show(d, 80) for d in sentences_[:2]))


# ------------------------------------------------------------------ biclosed

@st.composite
def rule_cases(draw, tier):
    kind = draw(st.sampled_from(["FA", "BA", "FC", "BC", "FX", "BX",
                                 "curry", "curry-left", "compose"]))
    t = xspec.bi_types(2)
    a, b, c = draw(t), draw(t), draw(t)
    if findings.active("biclosed2rigid-ba", "C18") and kind == "BA"\
            and len(xspec.rigid_image(a)) != 1:
        kind = "FA"
    return {"kind": kind, "a": a, "b": b, "c": c, "n": draw(st.integers(1, 3))}


def rule_spec(case):
    o, u = xspec.over, xspec.under
    a, b, c, kind = case["a"], case["b"], case["c"], case["kind"]
    if kind == "FA":
        return {"k": "bi", "g": "FA", "t": o(a, b)}
    if kind == "BA":
        return {"k": "bi", "g": "BA", "t": u(a, b)}
    if kind == "FC":
        return {"k": "bi", "g": "FC", "l": o(a, b), "r": o(b, c)}
    if kind == "BC":
        return {"k": "bi", "g": "BC", "l": u(a, b), "r": u(b, c)}
    if kind == "FX":
        return {"k": "bi", "g": "FX", "l": o(a, b), "r": u(c, b)}
    if kind == "BX":
        return {"k": "bi", "g": "BX", "l": o(a, b), "r": u(a, c)}
    return None


def rigid_key(t):
    return specs.skey_ty(xspec.rigid_image(t))


def doubling_model(types):
    """ Another functor on the same type objects, sending each atom to two
    wires: translations are functions of the functor asked, not of what
    other functors did to the same types before. """
    from discopy import biclosed, rigid
    model = biclosed.Functor(
        ob=lambda x: rigid.Ty(x[0].name, x[0].name), ar={},
        ob_factory=rigid.Ty, ar_factory=rigid.Diagram)
    for t in types:
        image = model(t)
        require(len(image) == 2 * len(biclosed.biclosed2rigid(t)),
                "C18:model-on-types", lambda: "{} -> {}".format(t, image))


def check_rule(case):
    from discopy.biclosed import biclosed2rigid
    kind = case["kind"]
    if kind in ("curry", "curry-left"):
        dom = case["a"] + case["b"] + case["c"]
        # wires to curry must translate to >= 1 rigid wire ("currying nothing"
        # is a degenerate request)
        n = min(case["n"], len(dom))
        left = kind == "curry-left"
        part = dom[:n] if left else dom[len(dom) - n:]
        if not n or not xspec.rigid_image(part):
            return dict(nt=False, labels=["degenerate"])
        inner = {"cls": "biclosed", "dom": dom, "layers": [[
            {"k": "box", "name": "f", "dom": dom, "cod": case["a"],
             "dag": False}, 0]]}
        b = {"k": "bi", "g": "Curry", "d": inner, "n": n, "left": left}
    elif kind == "compose":
        # FA then a generic box, tensored with an identity
        fa = {"k": "bi", "g": "FA", "t": xspec.over(case["a"], case["b"])}
        spec = {"cls": "biclosed", "dom": specs.bdom(fa) + case["c"],
                "layers": [[fa, 0], [{"k": "box", "name": "g",
                                      "dom": case["a"] + case["c"],
                                      "cod": case["b"], "dag": False,
                                      "word": case["n"] % 2 == 0}, 0]]}
        d = specs.build(spec)
        doubling_model([d.dom, d.cod] + [x.dom for x in d.boxes])
        image = biclosed2rigid(d)
        specs.well_typed(image, "biclosed2rigid")
        require(specs.tkey(image.dom) == rigid_key(spec["dom"])
                and specs.tkey(image.cod) == rigid_key(case["b"]),
                "C18:biclosed2rigid-type", lambda: "{} -> {} : {} -> {}"
                .format(d, image, image.dom, image.cod))
        return dict(nt=True, labels=[kind], show=common.show(d, 200))
    else:
        b = rule_spec(case)
    spec = {"cls": "biclosed", "dom": specs.bdom(b), "layers": [[b, 0]]}
    d = specs.build(spec)
    specs.well_typed(d, "biclosed diagram")
    specs.matches_spec(d, spec, "rule box")
    if case["n"] % 2:
        doubling_model([d.dom, d.cod])
    image = biclosed2rigid(d)
    specs.well_typed(image, "biclosed2rigid")
    dom, cod = spec["dom"], specs.spec_cod(spec)
    require(specs.tkey(biclosed2rigid(d.dom)) == rigid_key(dom)
            and specs.tkey(biclosed2rigid(d.cod)) == rigid_key(cod),
            "C18:biclosed2rigid-on-types", lambda: "{} , {}".format(
                d.dom, d.cod))
    require(specs.tkey(image.dom) == rigid_key(dom)
            and specs.tkey(image.cod) == rigid_key(cod),
            "C18:biclosed2rigid-type", lambda: "{} -> {} : {} -> {} expected "
            "{} -> {}".format(d, image, image.dom, image.cod,
                              rigid_key(dom), rigid_key(cod)))
    deep = any(isinstance(x, dict) or len(t) != 1
               for t in (case["a"], case["b"], case["c"]) for x in t)
    return dict(nt=deep, labels=[kind], show=common.show(d, 200))


# ------------------------------------------------------------------ CCG trees

def cat_string(t, top=True):
    """ depccg-style category string of a one-object biclosed type spec:
    inner slash categories are parenthesised, the outermost is not. """
    (x,) = t
    if isinstance(x, dict):
        tag, left, right = xspec.parts(x)
        if tag == "o":
            text = "{}/{}".format(cat_string(left, False),
                                  cat_string(right, False))
        else:
            text = "{}\\{}".format(cat_string(right, False),
                                   cat_string(left, False))
        return text if top else "({})".format(text)
    return x[0].upper()


@st.composite
def one_object_types(draw, depth=2):
    atom = st.sampled_from(["x", "y", "z"]).map(lambda n: [[n, 0]])
    if depth == 0:
        return draw(atom)
    kind = draw(st.sampled_from(["atom", "atom", "over", "under"]))
    if kind == "atom":
        return draw(atom)
    left = draw(one_object_types(depth - 1))
    right = draw(one_object_types(depth - 1))
    return [xspec.over(left, right) if kind == "over"
            else xspec.under(left, right)]


@st.composite
def tree_cases(draw, tier):
    a, b, c = (draw(one_object_types()) for _ in range(3))
    rule = draw(st.sampled_from(["fa", "ba", "fc", "other"]))
    return {"a": a, "b": b, "c": c, "rule": rule,
            "nested": draw(st.booleans())}


def upper_names(t):
    """ The type spec with atom names as cat2ty produces them (upper case)."""
    out = []
    for x in t:
        if isinstance(x, dict):
            tag, left, right = xspec.parts(x)
            out.append({tag: [upper_names(left), upper_names(right)]})
        else:
            out.append([x[0].upper(), 0])
    return out


def check_tree(case):
    from discopy.grammar import tree2diagram
    from discopy.biclosed import biclosed2rigid
    o, u = xspec.over, xspec.under
    a, b, c, rule = case["a"], case["b"], case["c"], case["rule"]

    def word(name, t):
        return {"word": name, "cat": cat_string(t)}
    if rule == "fa":
        kids, result = [word("f", [o(a, b)]), word("x", b)], a
    elif rule == "ba":
        kids, result = [word("x", a), word("f", [u(a, b)])], b
    elif rule == "fc":
        kids, result = [word("f", [o(a, b)]), word("g", [o(b, c)])], [o(a, c)]
    else:
        kids, result = [word("x", a), word("y", b)], c
    tree = {"type": rule, "cat": cat_string(result), "children": kids}
    if case["nested"]:
        tree = {"type": "other", "cat": cat_string(a),
                "children": [tree, word("z", c)]}
        result = a
    d = tree2diagram(tree)
    specs.well_typed(d, "tree2diagram")
    require(specs.tkey(d.dom) == ()
            and specs.tkey(d.cod) == specs.skey_ty(upper_names(result)),
            "C18:tree2diagram-type", lambda: "{} : {} -> {} expected {}"
            .format(d, d.dom, d.cod, cat_string(result)))
    image = biclosed2rigid(d)
    specs.well_typed(image, "biclosed2rigid(tree2diagram(tree))")
    require(specs.tkey(image.dom) == ()
            and specs.tkey(image.cod) == rigid_key(upper_names(result)),
            "C18:tree-image-type", lambda: "{} -> {}".format(d, image))
    # a leaf with inputs (tree2diagram's `dom` argument): a word box b @ c -> a
    leaf_dom = b + c
    leaf = tree2diagram(word("w", a), dom=xspec.bty(leaf_dom))
    specs.well_typed(leaf, "tree2diagram(leaf, dom)")
    require(specs.tkey(leaf.dom) == specs.skey_ty(leaf_dom)
            and specs.tkey(leaf.cod) == specs.skey_ty(upper_names(a)),
            "C18:tree2diagram-type", lambda: "leaf {} : {} -> {}".format(
                leaf, leaf.dom, leaf.cod))
    for what, dd in (("leaf", leaf), ("leaf in context", d @ leaf)):
        image = biclosed2rigid(dd)
        specs.well_typed(image, "biclosed2rigid({})".format(what))
        require(specs.tkey(image.dom) == rigid_key(leaf_dom)
                and specs.tkey(image.cod) == rigid_key(
                    (upper_names(result) if dd is not leaf else [])
                    + upper_names(a)),
                "C18:tree-image-type", lambda: "{}: {} -> {} : {} -> {}"
                .format(what, dd, image, image.dom, image.cod))
    deep = any(isinstance(t[0], dict) for t in (a, b, c))
    return dict(nt=deep, labels=[rule], show=common.show(d, 200))


@st.composite
def eager_cases(draw, tier):
    return draw(sentences(tier))


core.register("C18", [
    Facet("eager_parse", eager_cases, check_eager, n_quick=3200,
          shards_quick=4, rule="sentences with a hidden reduction to the "
          "target and random ones; a returned parse has the words in order "
          "followed by cups of adjacent (x, x.r) pairs; a parse is only "
          "returned when a reduction exists"),
    Facet("brute_force", vocab_cases, check_brute_force, n_quick=120,
          rule="vocabularies containing a grammatical sentence of length 2 "
          "(and a modifier, so that infinitely many exist): first 1-3 "
          "results"),
    Facet("cfg", cfg_cases, check_cfg, n_quick=1200, shards_quick=4,
          rule="generated productions; sentences are derivations of the "
          "start symbol, bounded in number and depth, distinct when asked"),
    Facet("biclosed2rigid", rule_cases, check_rule, n_quick=3200,
          shards_quick=4, rule=RULE),
    Facet("ccg_trees", tree_cases, check_tree, n_quick=1800, shards_quick=4,
          rule="CCG trees (ba/fa/fc/other, nested) with category strings "
          "printed from generated biclosed types"),
], rule=RULE, assumptions=[
    "the harness's own translation of types: Over(a, b) -> T(a) . T(b)^l, "
    "Under(a, b) -> T(a)^r . T(b)",
    "currying zero rigid wires is outside the domain (degenerate request)"])
