"""C09 Evaluating a diagram computes its compositional meaning."""
import numpy as np
from hypothesis import strategies as st

from harness import core, specs, gen, common, classes
from harness.core import Facet, Violation, require
from harness.props.c05 import arity_list

RULE = ("rigid diagrams (boxes, daggered boxes, swaps, cups/caps with z != 0) "
        "x interpretations (dimension 1-3 per atomic type as int or Dim, dict "
        "or callable, arrays as nested lists or numpy) compared exactly with "
        "the layer-by-layer reference evaluator; tensor diagrams with boxes, "
        "spiders, swaps, bubbles and sums; non-trivial = >= 3 boxes, width "
        ">= 2, two distinct dimensions and a swap/cup/cap/daggered box")


@st.composite
def rigid_cases(draw, tier):
    big = tier == "thorough"
    spec = draw(gen.diagrams("rigid", max_boxes=7 if big else 6, max_width=5,
                             min_boxes=1))
    interp = draw(gen.interpretations([spec], max_dim=3))
    n = len(spec["layers"])
    return {"d": spec, "interp": interp, "as_dim": draw(st.booleans()),
            "callable": draw(st.booleans()), "lists": draw(st.booleans()),
            "i": draw(st.integers(0, max(0, n - 1))),
            "j": draw(st.integers(0, max(0, n - 1))),
            "left": draw(st.booleans()),
            "route": draw(st.sampled_from(["ctor", "whisker"]))}


def functor_of(case, dims, arrays):
    from discopy import rigid, tensor
    ob = {rigid.Ty(n): (tensor.Dim(v) if case["as_dim"] else v)
          for n, v in dims.items()}
    ar = {}
    words = {(b["name"], specs.skey_ty(b["cod"] if b.get("dag") else b["dom"]),
              specs.skey_ty(b["dom"] if b.get("dag") else b["cod"]))
             for b, _ in case["d"]["layers"] if b.get("word")}
    for (name, dom, cod), arr in arrays.items():
        for word in {False, (name, dom, cod) in words}:
            box = specs.box("rigid", {
                "k": "box", "name": name, "dom": [list(x) for x in dom],
                "cod": [list(x) for x in cod], "dag": False, "word": word})
            ar[box] = arr.tolist() if case["lists"] else arr
    if case["callable"]:
        ob_d, ar_d = ob, ar
        return tensor.Functor(lambda t: ob_d[t], lambda b: ar_d[b])
    return tensor.Functor(ob, ar)


def check_eval(out, ref, dims, dom, cod, label, detail):
    from discopy.tensor import Tensor
    require(isinstance(out, Tensor), "C09:" + label + ":not-a-tensor",
            lambda: "{}: {!r}".format(detail, out))
    exp_dom = [dims[n] for n, _ in dom if dims[n] != 1]
    exp_cod = [dims[n] for n, _ in cod if dims[n] != 1]
    require(list(out.dom) == exp_dom and list(out.cod) == exp_cod,
            "C09:" + label + ":types", lambda: "{}: {} -> {} expected {} -> "
            "{}".format(detail, out.dom, out.cod, exp_dom, exp_cod))
    got = np.asarray(out.array)
    require(got.size == ref.size and np.array_equal(
        got.reshape(ref.shape), ref), "C09:" + label,
        lambda: "{}: got {} expected {}".format(
            detail, got.flatten().tolist(), ref.flatten().tolist())[:1500])


def check_rigid(case):
    from discopy.rewriting import InterchangerError
    spec = case["d"]
    dims, arrays = common.arrays_of(case["interp"])
    d = specs.build(spec, case["route"])
    F = functor_of(case, dims, arrays)
    ref = specs.ref_eval(spec, dims, arrays)
    cod = specs.spec_cod(spec)
    check_eval(F(d), ref, dims, spec["dom"], cod, "functor-vs-layerwise",
               common.show(d))
    labels = []
    # invariance under interchange
    if len(d) >= 2:
        try:
            moved = d.interchange(case["i"], case["j"], left=case["left"])
        except InterchangerError:
            moved = None
        if moved is not None:
            check_eval(F(moved), ref, dims, spec["dom"], cod,
                       "interchange-invariance", common.show(moved))
            labels.append("interchanged")
    # invariance under normalisation (when defined)
    try:
        nf = d.normal_form()
    except NotImplementedError:
        nf = None
    if nf is not None:
        check_eval(F(nf), ref, dims, spec["dom"], cod,
                   "normal-form-invariance", "{} -> {}".format(
                       common.show(d), common.show(nf)))
        if len(nf) < len(d):
            labels.append("snake-removed")
    # image of the dagger
    dag = specs.ref_eval(specs.spec_dagger(spec), dims, arrays)
    check_eval(F(d[::-1]), dag, dims, cod, spec["dom"], "dagger",
               common.show(d))
    kinds = {b["k"] for b, _ in spec["layers"]}
    special = bool(kinds & {"swap", "cup", "cap"}) or any(
        b.get("dag") for b, _ in spec["layers"])
    width = max(len(s) for s in specs.scans(spec))
    nt = len(spec["layers"]) >= 3 and width >= 2\
        and len(set(dims.values())) >= 2 and special
    return dict(nt=nt, labels=labels + sorted(kinds), show="{} dims={}"
                .format(common.show(d, 200), dims))


def mark_real(spec, names, flag="real"):
    """ Flag the boxes called `names` (all boxes if None) as real-valued (or
    with another flag of the tensor box specs). """
    layers = []
    for b, off in spec["layers"]:
        if b["k"] == "bubble":
            b = dict(b, inside=mark_real(b["inside"], names, flag))
        elif b["k"] == "box" and (names is None or b["name"] in names):
            b = dict(b, **{flag: True})
        layers.append([b, off])
    return dict(spec, layers=layers)


@st.composite
def tensor_cases(draw, tier):
    pool = []
    kw = dict(max_boxes=5, max_width=4, pool=pool)
    spec = draw(gen.diagrams("tensor", min_boxes=1, **kw))
    # wrap part of the diagram in bubbles
    if draw(st.booleans()) and spec["layers"]:
        inner = draw(gen.diagrams("tensor", max_boxes=2, max_width=3,
                                  pool=pool, min_boxes=1))
        b = {"k": "bubble", "inside": inner,
             "f": draw(st.sampled_from(sorted(classes.BUBBLE_FUNCS)))}
        icod = specs.spec_cod(inner)
        if len(inner["dom"]) + len(icod) <= 4:
            first = [[b, 0]]
            dom, cod = inner["dom"], icod
            if len(inner["dom"]) + len(icod) <= 2 and draw(st.booleans()):
                # the same inside under another function, side by side
                other = dict(b, f=draw(st.sampled_from(sorted(
                    set(classes.BUBBLE_FUNCS) - {b["f"]}))))
                first = [[b, 0], [other, len(icod)]]
                dom, cod = dom + dom, icod + icod
            tail = draw(gen.diagrams("tensor", dom=cod, max_boxes=3,
                                     max_width=4, pool=pool))
            spec = {"cls": "tensor", "dom": dom,
                    "layers": first + tail["layers"]}
    par = draw(gen.diagrams_to("tensor", spec["dom"], specs.spec_cod(spec),
                               max_boxes=3, max_width=4, pool=pool))
    # some generators carry real (integer) data: bubble functions may then
    # leave the dtype of the array they are applied to
    real = draw(st.sets(st.sampled_from(gen.BOXNAMES), max_size=3))
    if draw(st.booleans()):
        real = None   # all of them
    spec, par = mark_real(spec, real), mark_real(par, real)
    if draw(st.integers(0, 3)) == 0:
        objs = draw(st.sets(st.sampled_from(gen.BOXNAMES), min_size=1,
                            max_size=2))
        spec, par = mark_real(spec, objs, "objarr"), mark_real(
            par, objs, "objarr")
    return {"d": spec, "par": par,
            "whole": draw(st.sampled_from([None] + sorted(
                classes.BUBBLE_FUNCS)))}


def check_tensor(case):
    from discopy import tensor
    spec = case["d"]
    d = specs.build(spec)
    ref = classes.tensor_ref_eval(spec)
    dims = classes._IdentityDims()
    cod = specs.spec_cod(spec)
    out = d.eval()
    check_eval(out, ref, dims, spec["dom"], cod, "eval-vs-layerwise",
               common.show(d))
    same = tensor.Functor(ob=lambda x: x, ar=lambda f: f.array)(d)
    check_eval(same, ref, dims, spec["dom"], cod, "identity-on-arrays-functor",
               common.show(d))
    # sums
    par = specs.build(case["par"])
    total = (d + par).eval()
    check_eval(total, ref + classes.tensor_ref_eval(case["par"]), dims,
               spec["dom"], cod, "sum", common.show(d + par))
    # the sum of no terms at all is the zero tensor of its type, alone and
    # composed with a diagram
    empty = tensor.Sum([], d.dom, d.cod)
    ident = tensor.Functor(ob=lambda x: x, ar=lambda f: f.array)
    check_eval(ident(empty), np.zeros_like(ref), dims, spec["dom"], cod,
               "empty-sum", "Sum([], {}, {})".format(d.dom, d.cod))
    check_eval(ident(tensor.Sum([], d.dom, d.dom) >> d), np.zeros_like(ref),
               dims, spec["dom"], cod, "empty-sum",
               "Sum([]) >> {}".format(common.show(d)))
    # bubble around the whole diagram
    if case["whole"]:
        func = classes.BUBBLE_FUNCS[case["whole"]]
        bub = d.bubble(func=func).eval()
        exp = np.array([func(complex(x)) for x in ref.flatten()],
                       dtype=complex).reshape(ref.shape)
        check_eval(bub, exp, dims, spec["dom"], cod, "bubble", common.show(d))
    # a sum whose terms are a square box and its own dagger (equal up to the
    # dagger flag): each term is evaluated for itself
    for b, _ in spec["layers"]:
        if b["k"] == "box" and b["dom"] and specs.skey_ty(
                b["dom"]) == specs.skey_ty(b["cod"]):
            one = {"cls": "tensor", "dom": b["dom"], "layers": [[b, 0]]}
            f = specs.box("tensor", b)   # the bare box, not a diagram
            both = (f + f.dagger()).eval()
            exp = classes.tensor_ref_eval(one) + classes.tensor_ref_eval(
                specs.spec_dagger(one))
            check_eval(both, exp, dims, b["dom"], b["cod"], "sum-with-dagger",
                       common.show(f))
            break
    # evaluation reads the data a box holds now: entries updated in place
    # between two evaluations (weights in a training loop) are seen by the
    # second one
    for b, _ in spec["layers"]:
        if b["k"] == "box" and not b.get("dag") and not b.get("objarr"):
            f = specs.box("tensor", b)
            one = {"cls": "tensor", "dom": b["dom"], "layers": [[b, 0]]}
            before = classes.tensor_ref_eval(one)
            wrapped = tensor.Id(f.dom) >> f
            check_eval(f.eval(), before, dims, b["dom"], b["cod"],
                       "box-eval", common.show(f))
            check_eval(wrapped.eval(), before, dims, b["dom"], b["cod"],
                       "box-eval", common.show(f))
            if isinstance(f.data, np.ndarray) and f.data.size:
                data = f.data   # (the attribute itself is read-only)
                data *= 3
                for value in (f.eval(), wrapped.eval(), ident(wrapped)):
                    check_eval(value, 3 * before, dims, b["dom"], b["cod"],
                               "eval-after-updating-the-data-in-place",
                               common.show(f))
            break
    kinds = {b["k"] for b, _ in spec["layers"]}
    return dict(nt=len(spec["layers"]) >= 3 and bool(
        kinds & {"swap", "spider", "bubble"}), labels=sorted(kinds),
        show=common.show(d, 200))


@st.composite
def snaky_cases(draw, tier):
    from harness.props import c07
    case = draw(c07.snaky_cases(tier))
    return dict(case, as_dim=draw(st.booleans()),
                callable=draw(st.booleans()), lists=draw(st.booleans()))


def check_snaky(case):
    """ Evaluation is invariant under snake removal (library functor on both
    sides, reference evaluator as the third opinion). """
    spec = case["d"]
    dims, arrays = common.arrays_of(case["interp"])
    d = specs.build(spec)
    F = functor_of(case, dims, arrays)
    ref = specs.ref_eval(spec, dims, arrays)
    cod = specs.spec_cod(spec)
    check_eval(F(d), ref, dims, spec["dom"], cod, "functor-vs-layerwise",
               common.show(d))
    try:
        nf = d.normal_form(left=case["left"])
    except NotImplementedError:
        return dict(nt=False, labels=["NotImplementedError"])
    check_eval(F(nf), ref, dims, spec["dom"], cod, "normal-form-invariance",
               "{} -> {}".format(common.show(d), common.show(nf)))
    return dict(nt=len(nf) < len(d), labels=["removed%d" % (
        (len(d) - len(nf)) // 2)], show=common.show(d, 200))


@st.composite
def multi_axis_cases(draw, tier):
    """ Atomic types sent to dimensions with 0-2 axes (no adjoints, no cups or
    caps: the functor documents self-dual single dimensions for those). """
    spec = draw(gen.diagrams("rigid", max_boxes=5, max_width=4, min_boxes=1,
                             zmax=0, kinds=("box", "dagger", "swap", "swap")))
    names = sorted({n for sc in specs.scans(spec) for n, _ in sc} | {
        b[k][0] for b, _ in spec["layers"] for k in ("l", "r") if k in b})
    obdims = {n: draw(st.lists(st.integers(2, 3), min_size=0, max_size=2))
              for n in names}
    gens = {}
    for b, _ in spec["layers"]:
        if b["k"] == "box":
            dom, cod = (b["cod"], b["dom"]) if b.get("dag")\
                else (b["dom"], b["cod"])
            gens[(b["name"], specs.skey_ty(dom), specs.skey_ty(cod))] = None
    ar = []
    for (name, dom, cod) in gens:
        size = 1
        for n, _ in dom + cod:
            for d in obdims[n]:
                size *= d
        if size > 400:
            size = 0
        vals = draw(st.lists(st.integers(-2, 2), min_size=2 * size,
                             max_size=2 * size))
        ar.append({"name": name, "dom": [list(x) for x in dom],
                   "cod": [list(x) for x in cod], "vals": vals})
    return {"d": spec, "obdims": obdims, "ar": ar}


def unique_name(b):
    """ Generators with different types may expand to the same axes. """
    dom, cod = (b["cod"], b["dom"]) if b.get("dag") else (b["dom"], b["cod"])
    return "{}:{}->{}".format(b["name"], dom, cod)


def expand(spec, obdims):
    """ The spec with every wire replaced by one wire per axis of its image;
    swaps become block swaps written as adjacent transpositions. """
    def wires(t):
        return [["{}#{}".format(n, k), 0] for n, _ in t
                for k in range(len(obdims[n]))]
    layers = []
    for (b, off), scan in zip(spec["layers"], specs.scans(spec)):
        base = len(wires(scan[:off]))
        if b["k"] == "box":
            layers.append([dict(b, name=unique_name(b), dom=wires(b["dom"]),
                                cod=wires(b["cod"])), base])
        else:
            left, right = wires([b["l"]]), wires([b["r"]])
            cur = left + right
            for idx in reversed(range(len(left))):
                for step in range(len(right)):
                    pos = idx + step
                    layers.append([{"k": "swap", "l": cur[pos],
                                    "r": cur[pos + 1]}, base + pos])
                    cur[pos], cur[pos + 1] = cur[pos + 1], cur[pos]
    return {"cls": "rigid", "dom": wires(spec["dom"]), "layers": layers}


def check_multi_axis(case):
    from discopy import rigid, tensor
    spec, obdims = case["d"], case["obdims"]
    if any(not g["vals"] for g in case["ar"]) and case["ar"]:
        sizes = [len(g["vals"]) for g in case["ar"]]
        if 0 in sizes:
            return dict(nt=False, labels=["too-large"])
    d = specs.build(spec)
    dims = {"{}#{}".format(n, k): v for n, ds in obdims.items()
            for k, v in enumerate(ds)}

    def wires(t):
        return [["{}#{}".format(n, k), 0] for n, _ in t
                for k in range(len(obdims[n]))]
    arrays, ar = {}, {}
    for g in case["ar"]:
        shape = [dims[w] for w, _ in wires(g["dom"]) + wires(g["cod"])]
        arr = specs.cplx(g["vals"], shape)
        arrays[(unique_name(dict(g, dag=False)),
                specs.skey_ty(wires(g["dom"])),
                specs.skey_ty(wires(g["cod"])))] = arr
        for word in (False, True):
            box = specs.box("rigid", {
                "k": "box", "name": g["name"], "dom": g["dom"],
                "cod": g["cod"], "dag": False, "word": word})
            ar[box] = arr
    ob = {rigid.Ty(n): tensor.Dim(*ds) for n, ds in obdims.items()}
    out = tensor.Functor(ob, ar)(d)
    big = expand(spec, obdims)
    ref = specs.ref_eval(big, dims, arrays)
    exp_dom = [dims[w] for w, _ in big["dom"]]
    exp_cod = [dims[w] for w, _ in specs.spec_cod(big)]
    require(list(out.dom) == exp_dom and list(out.cod) == exp_cod,
            "C09:multi-axis:types", lambda: "{} -> {} expected {} -> {}"
            .format(out.dom, out.cod, exp_dom, exp_cod))
    got = np.asarray(out.array)
    require(got.size == ref.size and np.array_equal(
        got.reshape(ref.shape), ref), "C09:multi-axis-functor",
        lambda: "{} with {}: got {} expected {}".format(
            common.show(d), obdims, got.flatten().tolist(),
            ref.flatten().tolist())[:1500])
    swaps = [b for b, _ in spec["layers"] if b["k"] == "swap"]
    wide = any(len(obdims[b["l"][0]]) >= 2 or len(obdims[b["r"][0]]) >= 2
               for b in swaps)
    return dict(nt=wide, labels=["swaps%d" % min(len(swaps), 3)],
                show="{} with {}".format(common.show(d, 150), obdims))


def selftest():
    """ Reference evaluator on a hand-computed diagram. """
    spec = {"cls": "rigid", "dom": [], "layers": [
        [{"k": "cap", "l": ["a", 0], "r": ["a", -1]}, 0],
        [{"k": "box", "name": "f", "dom": [["a", 0]], "cod": [["b", 0]],
          "dag": False}, 0],
        [{"k": "swap", "l": ["b", 0], "r": ["a", -1]}, 0]]}
    arr = {("f", (("a", 0),), (("b", 0),)): np.array([[1, 2, 3], [4, 5, 6]])}
    out = specs.ref_eval(spec, {"a": 2, "b": 3}, arr)
    # cap: sum_i e_i (x) e_i ; f on the first leg ; swap -> [a.l, b]
    exp = np.array([[1, 2, 3], [4, 5, 6]])
    assert out.shape == (2, 3) and np.array_equal(out, exp), out


@st.composite
def axis_cup_cases(draw, tier):
    return {"dims": draw(st.sampled_from(
        [[2], [2, 2], [3, 3], [2, 3, 2], [2, 2, 2], [3, 2, 2, 3]])),
        "z": draw(st.integers(-1, 1)),
        "vals": draw(st.lists(st.integers(-2, 2), min_size=8, max_size=8))}


def check_axis_cups(case):
    """ A basic type sent to several axes (a palindromic dimension): cups and
    caps pair the axes in nested order, as the cups of a composite type do,
    and the snakes evaluate to the identity. """
    import itertools
    from discopy import rigid, tensor
    dims, n = case["dims"], len(case["dims"])
    x = rigid.Ty("x")
    t = x.l if case["z"] < 0 else x.r if case["z"] > 0 else x
    F = tensor.Functor({x: tensor.Dim(*dims)}, {})
    nested = np.zeros(tuple(dims) + tuple(dims[::-1]), dtype=complex)
    for idx in itertools.product(*[range(k) for k in dims]):
        nested[tuple(idx) + tuple(idx[::-1])] = 1
    size = int(np.prod(dims))

    def arr(v):
        return np.asarray(v.array, dtype=complex)
    for cup in (rigid.Cup(t, t.r), rigid.Cup(t.l, t)):
        got = arr(F(cup))
        require(got.size == nested.size and np.array_equal(
            got.reshape(nested.shape), nested), "C09:cup-of-several-axes",
            lambda: "F({}) with x -> Dim{}".format(cup, tuple(dims)))
    for cap in (rigid.Cap(t, t.l), rigid.Cap(t.r, t)):
        got = arr(F(cap))
        require(got.size == nested.size and np.array_equal(
            got.reshape(nested.shape), nested), "C09:cap-of-several-axes",
            lambda: "F({}) with x -> Dim{}".format(cap, tuple(dims)))
        require(np.array_equal(arr(F(cap.dagger())).reshape(nested.shape),
                               nested), "C09:cap-dagger-of-several-axes",
                lambda: str(cap))
    snakes = [rigid.Cap(t, t.l) @ rigid.Id(t) >> rigid.Id(t) @ rigid.Cup(
        t.l, t), rigid.Id(t) @ rigid.Cap(t.r, t) >> rigid.Cup(t, t.r)
        @ rigid.Id(t)]
    for snake in snakes:
        got = arr(F(snake)).reshape(size, size)
        require(np.array_equal(got, np.eye(size)), "C09:snake-of-several-"
                "axes", lambda: "F({}) with x -> Dim{}: {}".format(
                    snake, tuple(dims), got.tolist())[:800])
    return dict(nt=n >= 2, labels=["axes%d" % n],
                show="x -> Dim{} z={}".format(tuple(dims), case["z"]))


core.register("C09", [
    Facet("rigid_functor", rigid_cases, check_rigid, n_quick=1600,
          shards_quick=8, rule=RULE),
    Facet("snaky_invariance", snaky_cases, check_snaky, n_quick=800,
          shards_quick=4, rule="rigid diagrams with inserted zig-zags (C07 "
          "generator): the functor's value is unchanged by normal_form"),
    Facet("multi_axis", multi_axis_cases, check_multi_axis, n_quick=1200,
          shards_quick=4, rule="boxes, daggered boxes and swaps with atomic "
          "types sent to dimensions with 0-2 axes; reference evaluation of "
          "the axis-expanded diagram; non-trivial = a swap over a type with "
          ">= 2 axes"),
    Facet("axis_cups", axis_cup_cases, check_axis_cups, n_quick=60,
          rule="cups, caps and snakes on a basic type sent to a palindromic "
          "dimension of 1-4 axes against the nested pairing"),
    Facet("tensor_diagrams", tensor_cases, check_tensor, n_quick=1200,
          shards_quick=4, rule="tensor diagrams with boxes, daggered boxes, "
          "swaps, spiders, bubbles (elementwise functions) and sums: eval, "
          "identity-on-arrays functor and reference evaluator agree"),
], selftests=[selftest], rule=RULE, assumptions=[
    "one dimension per atomic type (the functor documents self-dual "
    "dimensions)", "Gaussian-integer entries: exact comparison"])
