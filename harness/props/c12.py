"""C12 Mixed evaluation agrees with pure evaluation and the Born rule."""
import itertools

import numpy as np
from hypothesis import strategies as st

from harness import core, specs, gen, common, qspec, qsem, findings
from harness.core import Facet, Violation, require
from harness.props.c11 import pure_circuits

RULE = ("circuits over bits and qubits with Measure/Encode in all flag "
        "combinations, Discard/MixedState on bits and qubits, Bits, Copy/"
        "Match, classical gates, pure and mixed scalars, swaps between bits "
        "and qubits, compared with an independent density-matrix reference "
        "(O6); non-trivial = bits and qubits are interleaved in some layer "
        "and the circuit has >= 1 measurement-type box")
TOL = dict(atol=1e-9, rtol=1e-9)


def same(got, ref, label, detail):
    got, ref = np.asarray(got, dtype=complex), np.asarray(ref, dtype=complex)
    require(got.size == ref.size and np.allclose(
        got.reshape(ref.shape), ref, **TOL), "C12:" + label,
        lambda: "{}: got {} expected {}".format(
            detail, np.round(got.flatten(), 6).tolist(),
            np.round(ref.flatten(), 6).tolist())[:1500])


def cq_types(out, spec, label):
    """ dom/cod of a CQMap: classical and quantum dimensions. """
    for side, wires in (("dom", spec["dom"]), ("cod", specs.spec_cod(spec))):
        t = getattr(out, side)
        nb = sum(1 for w in wires if w[0] == "bit")
        nq = sum(1 for w in wires if w[0] == "qubit")
        require(list(t.classical) == [2] * nb and list(t.quantum) == [2] * nq,
                "C12:" + label + ":types", lambda: "{} {}: {!r}, expected {} "
                "bits {} qubits".format(side, wires, t, nb, nq))


# ------------------------------------------------------------------ doubling

@st.composite
def doubling_cases(draw, tier):
    n = draw(st.integers(0, 3))
    return {"d": draw(pure_circuits([["qubit", 0]] * n, 6, 4))}


def check_doubling(case):
    spec = case["d"]
    d = specs.build(spec)
    pure = np.asarray(d.eval().array, dtype=complex)
    nd, nc = len(spec["dom"]), len(specs.spec_cod(spec))
    pure = pure.reshape((2,) * (nd + nc))
    out = d.eval(mixed=True)
    cq_types(out, spec, "doubling")
    # (conj dom, plain dom, conj cod, plain cod)
    D = np.tensordot(np.conj(pure), pure, 0)
    order = list(range(nd)) + list(range(nd + nc, 2 * nd + nc))\
        + list(range(nd, nd + nc)) + list(range(2 * nd + nc, 2 * nd + 2 * nc))
    same(out.array, np.transpose(D, order), "mixed-is-doubled-pure",
         common.show(d))
    same(out.array, qsem.cq_eval(spec), "mixed-vs-reference", common.show(d))
    # a rotation of the circuit on its own, behind Hadamards, with its phase
    # left symbolic and substituted after the (doubled) evaluation
    from harness.props import c14
    for b, _ in spec["layers"]:
        if b.get("g") in qspec.ROT1 + qspec.ROT2 and not b.get("dag")\
                and isinstance(b["a"][0], (int, float)):
            n = len(specs.bdom(b))
            head = [[{"k": "g", "g": "Ket", "a": [0] * n}, 0]] + [
                [{"k": "g", "g": "H"}, i] for i in range(n)]
            small = {"cls": "circuit", "dom": [], "layers": head + [[b, 0]]}
            symbolic = specs.build(dict(small, layers=head + [
                [dict(b, a=["x"]), 0]]))
            later = c14.to_complex(np.asarray(symbolic.eval(
                mixed=True).array, dtype=object), {"x": b["a"][0]})
            amps = np.asarray(qsem.pure_eval(small), dtype=complex)
            same(later, np.tensordot(np.conj(amps), amps, 0).reshape(-1)
                 if n == 1 else np.transpose(np.tensordot(
                     np.conj(amps), amps, 0), (0, 1, 2, 3)).reshape(-1),
                 "symbolic-doubling", "{} at x = {}".format(
                     common.show(symbolic), b["a"][0]))
            break
    # measure(): Born rule on the outputs of Ket(0...0) >> d, post-selected
    # circuits without outputs included; with mixed=True the outputs are
    # discarded instead and the total weight is left
    amps = np.asarray(qsem.pure_eval(init_pure(spec)), dtype=complex)
    same(np.asarray(d.measure()).reshape(-1), (np.abs(amps) ** 2).reshape(-1),
         "measure-born-rule", common.show(d))
    same(np.asarray(d.measure(mixed=True)).reshape(-1),
         np.array([np.sum(np.abs(amps) ** 2)]), "measure-mixed-total-weight",
         common.show(d))
    return dict(nt=len(spec["layers"]) >= 2 and nd + nc >= 1,
                labels=["w%d" % (nd + nc)], show=common.show(d, 200))


# ------------------------------------------------------------------ boxes

def box_variants():
    out = []
    for n in (1, 2):
        for a, b in itertools.product((True, False), repeat=2):
            out.append({"k": "g", "g": "Measure", "a": [n, a, b]})
            out.append({"k": "g", "g": "Encode", "a": [n, a, b]})
    for t in (["qubit"], ["bit"], ["qubit", "bit"], ["bit", "qubit", "qubit"],
              []):
        out.append({"k": "g", "g": "Discard", "a": t})
        out.append({"k": "g", "g": "MixedState", "a": t})
    for bits in ([], [0], [1], [1, 0]):
        out.append({"k": "g", "g": "Bits", "a": bits})
        out.append({"k": "g", "g": "Bits", "a": bits, "dag": True})
        out.append({"k": "g", "g": "Ket", "a": bits})
        out.append({"k": "g", "g": "Bra", "a": bits})
    out += [{"k": "g", "g": "Copy"}, {"k": "g", "g": "Match"}]
    for l, r in itertools.product(("bit", "qubit"), repeat=2):
        out.append({"k": "swap", "l": [l, 0], "r": [r, 0]})
    return out


def enum_boxes(tier):
    for b in box_variants():
        if findings.active("measure-override-eval", "C12") and b.get(
                "g") in ("Measure", "Encode") and b["a"][2]:
            continue
        yield {"b": b}


def check_box(case):
    b = case["b"]
    spec = {"cls": "circuit", "dom": specs.bdom(b), "layers": [[b, 0]]}
    box = specs.box("circuit", b)
    d = specs.build(spec)
    specs.matches_spec(d, spec, "box")
    out = box.eval(mixed=True)
    cq_types(out, spec, "box")
    same(out.array, qsem.cq_eval(spec), "box-vs-reference", repr(box))
    # the dagger has swapped dom/cod and evaluates to the conjugate transpose
    dag = box.dagger()
    dspec = specs.spec_dagger(spec)
    require(specs.tkey(dag.dom) == specs.skey_ty(dspec["dom"])
            and specs.tkey(dag.cod) == specs.skey_ty(specs.spec_cod(dspec)),
            "C12:dagger-types", lambda: "{!r}: {} -> {}".format(
                dag, dag.dom, dag.cod))
    dout = dag.eval(mixed=True)
    same(dout.array, qsem.cq_eval(dspec), "dagger-vs-reference", repr(dag))
    # adjoint as a matrix: (flattened dom) x (flattened cod)
    rows = int(np.prod(out.array.shape[:len(out.utensor.dom)] or [1]))
    M = np.asarray(out.array, dtype=complex).reshape(rows, -1)
    same(np.asarray(dout.array, dtype=complex).reshape(M.shape[1], -1),
         M.conj().T, "dagger-is-adjoint", repr(box))
    return dict(nt=True, labels=[b.get("g", "swap")], show=repr(box))


# ------------------------------------------------------------------ circuits

@st.composite
def mixed_circuits(draw, tier, trace_preserving=False, max_boxes=None):
    big = tier == "thorough"
    dom = draw(st.lists(st.sampled_from([["qubit", 0], ["bit", 0]]),
                        min_size=0, max_size=2 if trace_preserving else 3))
    scan = [list(w) for w in dom]
    layers = []
    max_boxes = max_boxes or (9 if big else 7)
    for _ in range(draw(st.integers(1, max_boxes))):
        b, off = draw(qspec.circuit_layer(scan, 5))
        if trace_preserving:
            b = stochastic(draw, b)
            if b is None:
                continue
        if findings.active("measure-override-eval", "C12") and b.get(
                "g") in ("Measure", "Encode") and b["a"][2]:
            continue
        layers.append([b, off])
        scan = scan[:off] + specs.bcod(b) + scan[off + len(specs.bdom(b)):]
    return {"cls": "circuit", "dom": dom, "layers": layers}


def stochastic(draw, b):
    """ Restrict to the trace-preserving family: preparations, unitaries,
    measurements, discards and stochastic classical gates. """
    if b["k"] == "swap":
        return b
    g = b["g"]
    if g in ("Bra", "scalar", "sqrt", "Match", "Encode", "MixedState"):
        return None
    if g == "Bits" and b.get("dag"):
        return None
    if g == "CGate":
        name, n_in, n_out, _ = b["a"]
        cols = []
        for _ in range(2 ** n_in):
            weights = draw(st.lists(st.integers(0, 4), min_size=2 ** n_out,
                                    max_size=2 ** n_out))
            if not sum(weights):
                weights[0] = 1
            cols.append([w / sum(weights) for w in weights])
        vals = [x for col in cols for x in col]
        return dict(b, a=[name, n_in, n_out, vals])
    return b


@st.composite
def circuit_cases(draw, tier):
    return {"d": draw(mixed_circuits(tier))}


def interleaved(spec):
    for scan in specs.scans(spec):
        kinds = [w[0] for w in scan]
        if "bit" in kinds and "qubit" in kinds:
            first_q, first_b = kinds.index("qubit"), kinds.index("bit")
            last_q = len(kinds) - 1 - kinds[::-1].index("qubit")
            last_b = len(kinds) - 1 - kinds[::-1].index("bit")
            if first_b < last_q and first_q < last_b:
                return True
    return False


def measuring(spec):
    return any(b.get("g") in ("Measure", "Encode", "Discard", "MixedState")
               for b, _ in spec["layers"])


def expected_mixed(spec):
    """ is_mixed: both bits and qubits somewhere, or a mixed box. """
    scans = specs.scans(spec)
    both = any({"bit", "qubit"} <= {w[0] for w in s} for s in scans)
    mixed_box = any(
        b.get("g") in ("Measure", "Encode", "Discard", "MixedState")
        or b.get("g") == "scalar" and b.get("mixed")
        or b["k"] == "swap" and b["l"][0] != b["r"][0]
        for b, _ in spec["layers"])
    return both or mixed_box


def check_circuit(case):
    spec = case["d"]
    d = specs.build(spec)
    out = d.eval(mixed=True)
    cq_types(out, spec, "circuit")
    same(out.array, qsem.cq_eval(spec), "circuit-vs-reference",
         common.show(d))
    exp = expected_mixed(spec)
    require(bool(d.is_mixed) == exp, "C12:is_mixed", lambda: "{} reports "
            "is_mixed={}".format(d, d.is_mixed))
    if exp:   # default evaluation of a mixed circuit is the CQ map
        same(d.eval().array, out.array, "default-eval-of-mixed", str(d))
    return dict(nt=interleaved(spec) and measuring(spec), labels=sorted({
        b.get("g", "swap") for b, _ in spec["layers"]}),
        show=common.show(d, 250))


def enum_coexistence(tier):
    """ Circuits without any mixed box in which bits and qubits sit side by
    side at one point only: at the start, in the middle, or in the final
    codomain (the last box creates the coexistence). """
    q, c = ["qubit", 0], ["bit", 0]
    ket = lambda v: {"k": "g", "g": "Ket", "a": [v]}      # noqa: E731
    bits = lambda v: {"k": "g", "g": "Bits", "a": [v]}    # noqa: E731
    h, x = {"k": "g", "g": "H"}, {"k": "g", "g": "X"}
    flip = {"k": "g", "g": "CGate", "a": ["p", 1, 1, [0, 1, 1, 0]]}
    for v in (0, 1):
        for gate in (None, h, x):
            mid = [[gate, 0]] if gate else []
            # qubit first, the bit comes last (right, left)
            yield {"d": {"cls": "circuit", "dom": [], "layers":
                         [[ket(v), 0]] + mid + [[bits(1 - v), 1]]}}
            yield {"d": {"cls": "circuit", "dom": [], "layers":
                         [[ket(v), 0]] + mid + [[bits(v), 0]]}}
            # open qubit wire, the bit comes last
            yield {"d": {"cls": "circuit", "dom": [q], "layers":
                         mid + [[bits(v), 1]]}}
            yield {"d": {"cls": "circuit", "dom": [q], "layers":
                         mid + [[bits(v), 0]]}}
        for gate in (None, flip):
            mid = [[gate, 0]] if gate else []
            # bit first, the qubit comes last
            yield {"d": {"cls": "circuit", "dom": [], "layers":
                         [[bits(v), 0]] + mid + [[ket(1 - v), 1]]}}
            yield {"d": {"cls": "circuit", "dom": [c], "layers":
                         mid + [[ket(v), 0]]}}
            # coexistence in the middle only: the bit is closed again
            yield {"d": {"cls": "circuit", "dom": [q], "layers":
                         [[bits(v), 1]] + [[dict(g, a=list(g["a"]))
                                            if g is flip else g, 1]
                                           for g in ([gate] if gate else [])]
                         + [[dict(bits(v), dag=True), 1]]}}
        # coexistence in the domain only
        yield {"d": {"cls": "circuit", "dom": [q, c], "layers":
                     [[dict(bits(v), dag=True), 1], [h, 0]]}}


@st.composite
def tp_cases(draw, tier):
    return {"d": draw(mixed_circuits(tier, trace_preserving=True))}


@st.composite
def weighted_cases(draw, tier):
    """ A trace-preserving circuit times a real weight (a mixed scalar, as in
    the terms of a parameter-shift gradient): negative weights included. """
    spec = draw(mixed_circuits(tier, trace_preserving=True, max_boxes=5))
    w = draw(st.sampled_from([-1, -0.5, 0.5, 2, -2]))
    i = draw(st.integers(0, len(spec["layers"])))
    off = draw(st.integers(0, len(specs.scans(spec)[i])))
    layers = [list(l) for l in spec["layers"]]
    # the weight as a mixed scalar or as a classical gate without wires
    # (a 0 -> 0 stochastic map): both enter the evaluation linearly
    if draw(st.booleans()):
        weight = {"k": "g", "g": "scalar", "a": [w, 0], "mixed": True}
    else:
        weight = {"k": "g", "g": "CGate", "a": ["w", 0, 0, [w]]}
    layers.insert(i, [weight, off])
    return {"d": dict(spec, layers=layers), "w": w}


def check_weighted(case):
    spec, w = case["d"], case["w"]
    d = specs.build(spec)
    closed = init_and_discard_spec(spec)
    ref = qsem.distribution(closed)
    n = len(specs.spec_cod(closed))
    require(abs(ref.sum() - w) < 1e-9, "C12:reference-not-normalised",
            "harness reference sums to {} not {}".format(ref.sum(), w))
    same(bit_tensor(d.get_counts(), n), ref, "counts-vs-reference",
         common.show(d))
    same(d.init_and_discard().eval(mixed=True).array, ref,
         "evaluation-vs-reference", common.show(d))
    same(d.measure(mixed=True), ref, "measure-mixed-vs-reference",
         common.show(d))
    return dict(nt=w < 0, labels=["weight%s" % w], show=common.show(d, 200))


def bit_tensor(counts, n):
    arr = np.zeros((2,) * n or (), dtype=complex)
    for bits, value in counts.items():
        value = np.asarray(value)
        require(value.size == 1, "C12:count-not-a-number", repr(counts))
        arr[tuple(bits)] = complex(value.reshape(-1)[0])
    return arr


def init_and_discard_spec(spec):
    layers = []
    for i, w in enumerate(spec["dom"]):
        layers.append([{"k": "g", "g": "Bits" if w[0] == "bit" else "Ket",
                        "a": [0]}, i])
    layers += spec["layers"]
    cod = specs.spec_cod(spec)
    out = {"cls": "circuit", "dom": [], "layers": layers}
    pos = 0
    for w in cod:
        if w[0] == "qubit":
            out["layers"].append([{"k": "g", "g": "Discard",
                                   "a": ["qubit"]}, pos])
        else:
            pos += 1
    return out


def check_tp(case):
    spec = case["d"]
    d = specs.build(spec)
    closed = init_and_discard_spec(spec)
    ref = qsem.distribution(closed)
    n = len(specs.spec_cod(closed))
    require(abs(ref.sum() - 1) < 1e-9, "C12:reference-not-normalised",
            "harness reference sums to {}".format(ref.sum()))
    iad = d.init_and_discard()
    specs.well_typed(iad, "init_and_discard")
    require(specs.tkey(iad.dom) == () and all(
        k == ("bit", 0) for k in specs.tkey(iad.cod)),
        "C12:init_and_discard-types", str(iad))
    counts = d.get_counts()
    total = sum(counts.values())
    require(abs(total - 1) < 1e-9, "C12:counts-not-a-distribution",
            lambda: "{} sums to {}".format(counts, total))
    same(bit_tensor(counts, n), ref, "counts-vs-reference", common.show(d))
    same(iad.eval(mixed=True).array, ref, "evaluation-vs-reference",
         common.show(d))
    if d.is_mixed:
        same(d.measure(), ref, "measure-vs-reference", common.show(d))
    else:
        # pure circuits: measure() measures all outputs of Ket(0...0) >> c
        pure = init_pure(spec)
        amps = qsem.pure_eval(pure)
        same(d.measure(), np.abs(amps) ** 2, "measure-born-rule",
             common.show(d))
    same(d.measure(mixed=True), ref, "measure-mixed-vs-reference",
         common.show(d))
    return dict(nt=interleaved(spec) and measuring(spec),
                labels=["bits%d" % n], show=common.show(d, 250))


def init_pure(spec):
    layers = [[{"k": "g", "g": "Ket", "a": [0]}, i]
              for i in range(len(spec["dom"]))]
    return {"cls": "circuit", "dom": [], "layers": layers + spec["layers"]}


@st.composite
def born_cases(draw, tier):
    n = draw(st.integers(1, 3))
    spec = draw(pure_circuits([], 6, n + 1))
    return {"d": spec, "destructive": draw(st.booleans())}


def check_born(case):
    """ state >> Measure(n) gives |amplitude|^2; discarding gives marginals."""
    spec = case["d"]
    cod = specs.spec_cod(spec)
    if not cod or any(w[0] != "qubit" for w in cod):
        return dict(nt=False, labels=["n/a"])
    n = len(cod)
    d = specs.build(spec)
    from discopy.quantum import Measure, Discard, Id
    amps = np.asarray(d.eval().array, dtype=complex).reshape((2,) * n)
    probs = np.abs(amps) ** 2
    out = (d >> Measure(n)).eval(mixed=True)
    same(out.array, probs, "measure-is-squared-magnitude", common.show(d))
    # discard the first qubit, measure the rest: marginal
    if n >= 2:
        out = (d >> Discard() @ Measure(n - 1)).eval(mixed=True)
        same(out.array, probs.sum(axis=0), "discard-is-marginal",
             common.show(d))
        out = (d >> Measure(n) >> Discard(specs.ty(
            "circuit", [["bit", 0]])) @ Id(specs.ty(
                "circuit", [["bit", 0]] * (n - 1)))).eval(mixed=True)
        same(out.array, probs.sum(axis=0), "classical-discard-is-marginal",
             common.show(d))
    same((d >> Discard(n)).eval(mixed=True).array, probs.sum(),
         "discard-all-is-norm", common.show(d))
    return dict(nt=n >= 2 and len(spec["layers"]) >= 3, labels=["n%d" % n],
                show=common.show(d, 200))


def selftest():
    """ O6 on hand-computed cases: Bell pair measured; measure of |+>. """
    h = {"k": "g", "g": "H"}
    spec = {"cls": "circuit", "dom": [], "layers": [
        [{"k": "g", "g": "Ket", "a": [0, 0]}, 0], [h, 0],
        [{"k": "g", "g": "CX"}, 0],
        [{"k": "g", "g": "Measure", "a": [2, True, False]}, 0]]}
    out = qsem.distribution(spec)
    assert np.allclose(out, [[0.5, 0], [0, 0.5]]), out
    spec = {"cls": "circuit", "dom": [], "layers": [
        [{"k": "g", "g": "Ket", "a": [1]}, 0],
        [{"k": "g", "g": "Measure", "a": [1, False, False]}, 0],
        [{"k": "g", "g": "Discard", "a": ["qubit"]}, 0]]}
    assert np.allclose(qsem.distribution(spec), [0, 1])


core.register("C12", [
    Facet("doubling", doubling_cases, check_doubling, n_quick=300,
          shards_quick=2, rule="pure circuits evaluated with mixed=True vs "
          "conj (x) plain of their pure evaluation and vs O6"),
    Facet("boxes", None, check_box, enum=enum_boxes, shards_quick=2,
          rule="every variant of Measure/Encode (n in 1,2; 4 flag "
          "combinations), Discard/MixedState on bits/qubits/mixed types, "
          "Bits/Ket/Bra, Copy/Match, the four swaps: evaluation vs O6, "
          "dagger types and dagger = adjoint"),
    Facet("circuits", circuit_cases, check_circuit, n_quick=500,
          shards_quick=8, rule=RULE),
    Facet("coexistence", None, check_circuit, enum=enum_coexistence,
          shards_quick=2, rule="circuits without mixed boxes whose bits and "
          "qubits coexist at one point only (first, middle, last): is_mixed "
          "and the default evaluation"),
    Facet("trace_preserving", tp_cases, check_tp, n_quick=300,
          shards_quick=4, rule="preparations, unitaries, measurements, "
          "discards, stochastic classical gates: get_counts / measure / "
          "evaluation are one probability distribution, equal to O6"),
    Facet("weighted", weighted_cases, check_weighted, n_quick=200,
          shards_quick=4, rule="a trace-preserving circuit times a real "
          "weight: get_counts / measure / evaluation are that multiple of "
          "the distribution; non-trivial = a negative weight"),
    Facet("born", born_cases, check_born, n_quick=200, shards_quick=2,
          rule="state >> Measure(n) = |amplitude|^2; Discard = marginal"),
], selftests=[selftest], rule=RULE, assumptions=[
    "O6 is written from the textbook definitions and shares no code with "
    "CQMap.tensor's swap network", "tolerance atol = rtol = 1e-9",
    "CQMap arrays are laid out (classical, quantum-conj, quantum) for dom, "
    "then for cod"])
