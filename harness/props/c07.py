"""C07 Snake removal is sound for rigid diagrams."""
import itertools

from hypothesis import strategies as st

from harness import core, specs, gen, common, findings
from harness.core import Facet, Violation, require
from harness.props.c05 import arity_list
from harness.props.c06 import connected_diagrams, spec_ars

RULE = ("rigid diagrams obtained by inserting zig-zags (cap ... cup with the "
        "diagram's own boxes as left/right obstructions, nested, both "
        "adjointness directions, winding numbers in [-2, 2]) into connected "
        "base diagrams, plus transposes, cups/caps of composite types and a "
        "free generator; non-trivial = >= 1 snake with an obstruction, a "
        "nested snake, or a non-standard cup/cap")


def insert_snake(spec, i1, i2, p, left, adj):
    """ Insert a zig-zag on the wire at position p of the scan before layer
    i1; the cap goes before layer i1 and the cup before layer i2 >= i1. The
    wire must not be touched by layers i1 .. i2 - 1. adj = +1 / -1 chooses
    the adjoint used for the middle leg. Returns None if not applicable. """
    sc = specs.scans(spec)
    layers = spec["layers"]
    if not (0 <= i1 <= i2 <= len(layers)) or not 0 <= p < len(sc[i1]):
        return None
    pos = p
    for k in range(i1, i2):           # follow the wire through layers i1..i2-1
        b, off = layers[k]
        nd, nc = len(specs.bdom(b)), len(specs.bcod(b))
        if off <= pos < off + nd:
            return None
        if off + nd <= pos:
            pos += nc - nd
    t = sc[i1][p]
    x = [t[0], t[1] + adj]
    new = [list(l) for l in layers[:i1]]
    if left:    # Id(t) @ Cap(x, t) ... Cup(t, x) @ Id(t)
        new.append([{"k": "cap", "l": x, "r": list(t)}, p + 1])
    else:       # Cap(t, x) @ Id(t) ... Id(t) @ Cup(x, t)
        new.append([{"k": "cap", "l": list(t), "r": x}, p])
    pos = p
    for k in range(i1, i2):
        b, off = layers[k]
        nd, nc = len(specs.bdom(b)), len(specs.bcod(b))
        if off + nd <= pos:           # box on the left of the snake
            new.append([b, off])
            pos += nc - nd
        else:                          # box on the right: two more wires
            new.append([b, off + 2])
    if left:
        new.append([{"k": "cup", "l": list(t), "r": x}, pos])
    else:
        new.append([{"k": "cup", "l": x, "r": list(t)}, pos + 1])
    new += [list(l) for l in layers[i2:]]
    out = dict(spec, layers=new)
    specs.scans(out)  # raises HarnessError if the insertion is wrong
    return out


@st.composite
def snaky_cases(draw, tier):
    big = tier == "thorough"
    base = draw(connected_diagrams(
        "rigid", max_boxes=5 if big else 4, max_width=4, names=("a", "b")))
    from harness.props.c03 import shift_z
    for name in ("a", "b"):
        base = shift_z(base, name, draw(st.integers(-1, 1)))
    # a wire cut by an effect directly above a state at the same offset (the
    # pair can be exchanged either way round), kept only when the diagram
    # stays connected through its other wires
    if draw(st.integers(0, 2)) == 0:
        sc = specs.scans(base)
        i = draw(st.integers(0, len(base["layers"])))
        if sc[i]:
            p = draw(st.integers(0, len(sc[i]) - 1))
            t = sc[i][p]
            cut = [list(l) for l in base["layers"]]
            cut[i:i] = [
                [{"k": "box", "name": "e", "dom": [t], "cod": [],
                  "dag": False}, p],
                [{"k": "box", "name": "s", "dom": [], "cod": [t],
                  "dag": False}, p]]
            cut = dict(base, layers=cut)
            if specs.connected(len(cut["dom"]), spec_ars(cut)):
                base = cut
    spec = base
    n_snakes = draw(st.integers(1, 3 if big else 2))
    inserted = []
    for _ in range(n_snakes):
        n = len(spec["layers"])
        sc = specs.scans(spec)
        starts = [i for i in range(n + 1) if sc[i]]
        if not starts:
            break
        i1 = draw(st.sampled_from(starts))
        p = draw(st.integers(0, len(sc[i1]) - 1))
        # the wire lives until the first layer that touches it
        pos, end = p, n
        for k in range(i1, n):
            b, off = spec["layers"][k]
            nd, nc = len(specs.bdom(b)), len(specs.bcod(b))
            if off <= pos < off + nd:
                end = k
                break
            if off + nd <= pos:
                pos += nc - nd
        i2 = draw(st.integers(i1, min(end, i1 + 4)))
        left, adj = draw(st.booleans()), draw(st.sampled_from([-1, 1]))
        out = insert_snake(spec, i1, i2, p, left, adj)
        if out is not None:
            spec = out
            inserted.append([i1, i2, p, left, adj])
    # scalar boxes (no wires at all) anywhere, also between a cap and its cup
    n_scalars = draw(st.sampled_from([0, 0, 1, 2]))
    for k in range(n_scalars):
        sc = specs.scans(spec)
        i = draw(st.integers(0, len(spec["layers"])))
        scalar = {"k": "box", "name": "s%d" % k, "dom": [], "cod": [],
                  "dag": False}
        layers = [list(l) for l in spec["layers"]]
        layers.insert(i, [scalar, draw(st.integers(0, len(sc[i])))])
        spec = dict(spec, layers=layers)
    interp = draw(gen.interpretations([spec], max_dim=2))
    return {"d": spec, "base": base, "inserted": inserted, "interp": interp,
            "left": draw(st.booleans()), "scalars": n_scalars}


# ------------------------------------------------------------------ oracle

def is_cap(bx):
    return type(bx).__name__ == "Cap" and hasattr(bx, "left")


def is_cup(bx):
    return type(bx).__name__ == "Cup" and hasattr(bx, "left")


def follow(d, i, j):
    """ Follow the wire at position j below box i; returns (index of the box
    consuming it or len(d), its position there). Independent of the library's
    follow_wire. """
    for k in range(i + 1, len(d)):
        bx, off = d.boxes[k], d.offsets[k]
        if off <= j < off + len(bx.dom):
            return k, j
        if off + len(bx.dom) <= j:
            j += len(bx.cod) - len(bx.dom)
    return len(d), j


def removable_snakes(d):
    """ (cap index, cup index, left?) for every cap whose leg runs straight
    into the opposite leg of a cup such that the snake equation holds. """
    out = []
    for c, bx in enumerate(d.boxes):
        if not is_cap(bx):
            continue
        off = d.offsets[c]
        for left, wire in ((True, off), (False, off + 1)):
            u, pos = follow(d, c, wire)
            if u == len(d) or not is_cup(d.boxes[u]):
                continue
            cup, cap = d.boxes[u], bx
            if left and d.offsets[u] + 1 == pos\
                    and specs.tkey(cup.left) == specs.tkey(cap.right):
                out.append((c, u, True))
            if not left and d.offsets[u] == pos\
                    and specs.tkey(cup.right) == specs.tkey(cap.left):
                out.append((c, u, False))
    return out


def check_step(prev, step, what):
    """ A yielded step is one legal interchange or one snake removal. """
    pb, sb = prev.boxes, step.boxes
    if len(sb) == len(pb):
        # one box moved from index i to index j (a possibly compound
        # interchange), every adjacent exchange on the way legal by O3
        ids_p, ids_s = list(map(id, pb)), list(map(id, sb))
        ok = sorted(ids_p) == sorted(ids_s) and len(set(ids_p)) == len(ids_p)
        move = None
        if ok and ids_p != ids_s:
            lo = next(k for k in range(len(pb)) if ids_p[k] != ids_s[k])
            hi = next(k for k in reversed(range(len(pb)))
                      if ids_p[k] != ids_s[k])
            if ids_p[lo + 1:hi + 1] == ids_s[lo:hi] and ids_p[lo] == ids_s[hi]:
                move = (lo, hi)     # box lo moved down to hi
            elif ids_p[lo:hi] == ids_s[lo + 1:hi + 1]\
                    and ids_p[hi] == ids_s[lo]:
                move = (hi, lo)     # box hi moved up to lo
            ok = move is not None
        if ok and move is not None:
            i, j = move
            states = {tuple(arity_list(prev))}
            path = range(i, j) if j > i else range(i - 1, j - 1, -1)
            for pos in path:
                nxt = set()
                for state in states:
                    for lo_, up_ in specs.model_swap(state[pos],
                                                     state[pos + 1]):
                        nxt.add(state[:pos] + (lo_, up_) + state[pos + 2:])
                states = nxt
            ok = tuple(arity_list(step)) in states
            perm = list(range(len(pb)))
            perm.insert(j, perm.pop(i))
            inv = [0] * len(perm)
            for new_k, old_k in enumerate(perm):
                inv[old_k] = new_k
            w0, _ = specs.wiring(len(prev.dom), arity_list(prev))
            w1, _ = specs.wiring(len(step.dom), arity_list(step))
            ok = ok and specs.relabel(w0, inv) == w1
        elif ok:
            ok = prev.offsets == step.offsets
        require(ok, "C07:step-not-a-legal-interchange",
                lambda: "{}: {} -> {}".format(what, prev, step))
        return "interchange"
    require(len(sb) == len(pb) - 2, "C07:step-changes-box-count",
            lambda: "{}: {} -> {}".format(what, prev, step))
    for i in range(len(pb) - 1):
        if is_cap(pb[i]) and is_cup(pb[i + 1])\
                and all(x is y for x, y in zip(pb[:i] + pb[i + 2:], sb)):
            cap, cup = pb[i], pb[i + 1]
            oc, ou = prev.offsets[i], prev.offsets[i + 1]
            left = ou + 1 == oc
            right = ou == oc + 1
            require(left or right, "C07:removed-pair-not-a-zig-zag",
                    lambda: "{}: {} -> {}".format(what, prev, step))
            outer, rest = (cup.left, cap.right) if left\
                else (cup.right, cap.left)
            require(specs.tkey(outer) == specs.tkey(rest),
                    "C07:removed-pair-violates-snake-equation",
                    lambda: "{}: {} -> {}".format(what, prev, step))
            require(prev.offsets[:i] + prev.offsets[i + 2:] == step.offsets,
                    "C07:offsets-after-removal",
                    lambda: "{}: {} -> {}".format(what, prev, step))
            return "removal"
    raise Violation("C07:removed-boxes-not-adjacent-cap-cup",
                    "{}: {} -> {}".format(what, prev, step))


def run_normalisation(d, spec, left, interp, cap=400):
    """ Iterate d.normalize(), checking every step. Returns
    (last diagram, kinds of steps, repeated?). """
    dims, arrays = interp
    ref = specs.ref_eval(spec, dims, arrays)
    prev, kinds, seen = d, [], set()
    try:
        for n, step in enumerate(d.normalize(left=left)):
            require(n < cap, "C07:non-termination", lambda: "normalize of {} "
                    "yields more than {} steps".format(d, cap))
            specs.well_typed(step, "normalisation step")
            require(specs.tkey(step.dom) == specs.tkey(d.dom)
                    and specs.tkey(step.cod) == specs.tkey(d.cod),
                    "C07:dom-cod", lambda: "{} -> {}".format(d, step))
            kinds.append(check_step(prev, step, "step {}".format(n)))
            got = specs.ref_eval(specs.spec_of(step, "rigid"), dims, arrays)
            require(common.exact_equal(ref, got), "C07:denotation-changed",
                    lambda: "{} -> {}".format(prev, step))
            key = repr(specs.dkey(step))
            if key in seen:
                return step, kinds, True
            seen.add(key)
            prev = step
    except NotImplementedError as exc:
        raise Violation("C07:normalize-raises", "{}: {!r}".format(d, exc))
    return prev, kinds, False


def library_functor_agrees(d, nf, spec):
    """ "Under every rigid functor into tensors": the library's own functor,
    with every basic type sent to two axes (a palindromic dimension, so that
    cups and caps of the image are defined), gives d and its normal form the
    same tensor. The step-by-step check above uses the harness evaluator with
    one axis per wire. """
    import numpy as np
    from discopy import rigid, tensor
    if max(len(sc) for sc in specs.scans(spec)) > 4 or len(d) > 9:
        return
    names = sorted({n for sc in specs.scans(spec) for n, _ in sc} | {
        b[k][0] for b, _ in spec["layers"] for k in ("l", "r") if k in b})
    ob = {rigid.Ty(n): tensor.Dim(2, 2) for n in names}
    ar = {}
    for bx in d.boxes:
        if is_cap(bx) or is_cup(bx) or type(bx).__name__ == "Swap":
            continue
        g = bx.dagger() if bx.is_dagger else bx
        if g in ar:
            continue
        size = 4 ** (len(g.dom) + len(g.cod))
        seed = sum(map(ord, str(g.name))) + 5 * len(g.dom) + len(g.cod)
        ar[g] = [((seed + 7 * i) % 5) - 2 + 1j * (((seed + 3 * i) % 3) - 1)
                 for i in range(size)]
    F = tensor.Functor(ob, ar)
    a, b = F(d), F(nf)
    require(a.dom == b.dom and a.cod == b.cod and np.allclose(
        np.asarray(a.array, dtype=complex), np.asarray(b.array, dtype=complex)),
        "C07:library-functor-distinguishes-normal-form",
        lambda: "{} and its normal form {} under n -> Dim(2, 2)".format(d, nf))


def check_diagram(spec, left, interp_spec, labels):
    d = specs.build(spec)
    interp = common.arrays_of(interp_spec)
    last, kinds, repeated = run_normalisation(d, spec, left, interp)
    conn = specs.connected(len(last.dom), arity_list(last))
    try:
        nf = d.normal_form(left=left)
    except NotImplementedError:
        # the only exception allowed, and only for disconnected diagrams:
        # a trace that cycles on a connected diagram is the same failure
        require(not conn or not specs.connected(
            len(spec["dom"]), arity_list(d)),
            "C07:NotImplementedError-on-connected",
            lambda: "{} (snake-free form {})".format(d, last))
        require(not removable_snakes(last),
                "C07:gave-up-before-removing-snakes", lambda: str(last))
        return dict(nt=False, labels=labels + ["NotImplementedError"])
    require(not repeated, "C07:normal_form-ignores-repeat", str(d))
    specs.well_typed(nf, "normal form")
    require(nf == last and specs.dkey(nf) == specs.dkey(last),
            "C07:normal_form-vs-last-step", lambda: "{} vs {}".format(
                nf, last))
    left_over = removable_snakes(nf)
    require(not left_over, "C07:snake-left-in-normal-form",
            lambda: "{} -> {} still has {}".format(d, nf, left_over))
    library_functor_agrees(d, nf, spec)
    # the other flag on the same diagram: the answer is that of this call
    try:
        other_last, _, other_rep = run_normalisation(d, spec, not left, interp)
        other = specs.build(spec).normal_form(left=not left)
    except NotImplementedError:
        other = None
    if other is not None and not other_rep:
        require(other == other_last
                and specs.dkey(other) == specs.dkey(other_last),
                "C07:normal-form-depends-on-earlier-calls",
                lambda: "{} with left={}: {} vs {}".format(
                    d, not left, other, other_last))
    removed = kinds.count("removal")
    obstructed = removed and kinds.count("interchange") > 0
    return dict(nt=bool(obstructed), labels=labels + [
        "removed%d" % min(removed, 4),
        "connected" if conn else "disconnected"],
        show="{} -> {}".format(common.show(d, 200), common.show(nf, 120)))


def check_snaky(case):
    spec = case["d"]
    labels = ["inserted%d" % len(case["inserted"])]
    nested = len(case["inserted"]) >= 2
    info = check_diagram(spec, case["left"], case["interp"], labels)
    if nested and "removed2" in info.get("labels", ()):
        info["nt"] = True
    # the snakes inserted into a connected base all go away
    if "NotImplementedError" not in info["labels"]:
        nf = specs.build(spec).normal_form(left=case["left"])
        n_caps = sum(1 for b, _ in case["base"]["layers"] if b["k"] == "cap")
        require(sum(map(is_cap, nf.boxes)) <= n_caps
                and len(nf) == len(case["base"]["layers"])
                + case.get("scalars", 0),
                "C07:inserted-snake-not-removed",
                lambda: "{} -> {}".format(specs.build(spec), nf))
    return info


@st.composite
def free_cases(draw, tier):
    spec = draw(gen.diagrams("rigid", max_boxes=7, max_width=5,
                             names=["a", "b"],
                             kinds=("box", "dagger", "cup", "cap", "cup")))
    if draw(st.integers(0, 3)) == 0:
        # a cap and a cup in zig-zag position whose outer legs differ: not a
        # snake, both hands, with or without something in between
        fake = gen.fake_snake(
            spec, draw(st.integers(0, 4)), draw(st.booleans()),
            draw(st.sampled_from([-1, 1])),
            draw(st.sampled_from([None, "scalar", "state", "endo"])))
        spec = fake or spec
    interp = draw(gen.interpretations([spec], max_dim=2))
    return {"d": spec, "interp": interp, "left": draw(st.booleans())}


def mismatched(spec):
    """ Does the spec contain a cap/cup pair in zig-zag position whose outer
    types differ (the trigger class of known finding snake-type-mismatch)? """
    d = specs.build(spec)
    for c, bx in enumerate(d.boxes):
        if not is_cap(bx):
            continue
        off = d.offsets[c]
        for left, wire in ((True, off), (False, off + 1)):
            u, pos = follow(d, c, wire)
            if u == len(d) or not is_cup(d.boxes[u]):
                continue
            cup = d.boxes[u]
            if left and d.offsets[u] + 1 == pos\
                    and specs.tkey(cup.left) != specs.tkey(bx.right):
                return True
            if not left and d.offsets[u] == pos\
                    and specs.tkey(cup.right) != specs.tkey(bx.left):
                return True
    return False


def check_free(case):
    info = check_diagram(case["d"], case["left"], case["interp"], ["free"])
    info["nt"] = "NotImplementedError" in info["labels"]\
        or "removed0" not in info["labels"]
    return info


@st.composite
def transpose_cases(draw, tier):
    base = draw(connected_diagrams("rigid", max_boxes=3, max_width=3,
                                   names=("a", "b")))
    from harness.props.c03 import shift_z
    base = shift_z(base, "a", draw(st.integers(-1, 1)))
    return {"d": base, "left": draw(st.booleans()),
            "tleft": draw(st.booleans()),
            "twice": draw(st.booleans()),
            "kind": draw(st.sampled_from(["transpose", "cups", "curry"])),
            "dims": {"a": draw(st.integers(1, 2)),
                     "b": draw(st.integers(1, 2))},
            "seed": draw(st.integers(0, 1000))}


def default_interp(spec, dims, seed):
    ar = []
    seen = set()
    for b, _ in spec["layers"]:
        if b["k"] != "box":
            continue
        dom, cod = (b["cod"], b["dom"]) if b.get("dag")\
            else (b["dom"], b["cod"])
        key = (b["name"], specs.skey_ty(dom), specs.skey_ty(cod))
        if key in seen:
            continue
        seen.add(key)
        size = 1
        for n, _ in dom + cod:
            size *= dims[n]
        vals = [((seed + 3 * i + len(seen)) % 5) - 2 for i in range(2 * size)]
        ar.append({"name": b["name"], "dom": dom, "cod": cod, "vals": vals})
    return {"dims": dims, "ar": ar}


def check_transpose(case):
    """ Diagram-level constructions that create snakes: double transposes,
    caps >> cups of composite types, currying. """
    from discopy import rigid
    base = specs.build(case["d"])
    kind = case["kind"]
    if len(base.dom) + len(base.cod) > 5:
        return dict(nt=False, labels=["too-wide"])
    if kind == "transpose":
        d = base.transpose(left=case["tleft"])
        if case["twice"]:
            d = d.transpose(left=not case["tleft"])
    elif kind == "cups":
        t = base.cod
        d = base @ rigid.Diagram.caps(t.r, t)\
            >> rigid.Diagram.cups(t, t.r) @ rigid.Id(t) if len(t) else base
    else:
        if not len(base.dom):
            return dict(nt=False, labels=["n/a"])
        t = base.dom[-1:]
        d = rigid.Diagram.curry(base, 1) @ rigid.Id(t)\
            >> rigid.Id(base.cod) @ rigid.Diagram.cups(t.l, t)
    spec = specs.spec_of(d, "rigid")
    interp = default_interp(spec, case["dims"], case["seed"])
    info = check_diagram(spec, case["left"], interp, [kind])
    if kind in ("cups", "curry") or case["twice"]:
        # these are equal to the base diagram by the snake equations
        if "NotImplementedError" not in info["labels"]:
            nf = d.normal_form(left=case["left"])
            require(len(nf) == len(base) and not any(
                is_cap(b) or is_cup(b) for b in nf.boxes
                if not any(b is x for x in base.boxes)),
                "C07:inserted-snake-not-removed",
                lambda: "{} -> {}".format(d, nf))
        info["nt"] = True
    return info


@st.composite
def self_adjoint_cases(draw, tier):
    """ Rigid diagrams over one wire type that is its own adjoint (PRO(1),
    qubit): every cap leg can meet either leg of a cup, so that closed loops
    and traces sit next to genuine snakes. """
    width = draw(st.integers(0, 2))
    dom, ops = width, []
    for k in range(draw(st.integers(1, 6))):
        kinds = ["box"]
        if width + 2 <= 5:
            kinds += ["cap", "cap"]
        if width >= 2:
            kinds += ["cup", "cup"]
        kind = draw(st.sampled_from(kinds))
        if kind == "cap":
            ops.append(["cap", draw(st.integers(0, width)), 0, 2])
            width += 2
        elif kind == "cup":
            ops.append(["cup", draw(st.integers(0, width - 2)), 2, 0])
            width -= 2
        else:
            n_in = draw(st.integers(0, min(2, width)))
            n_out = draw(st.integers(0, 2 if width - n_in + 2 <= 5 else 0))
            ops.append(["f%d" % k, draw(st.integers(0, width - n_in)), n_in,
                        n_out])
            width += n_out - n_in
    return {"dom": dom, "ops": ops, "left": draw(st.booleans()),
            "ty": draw(st.sampled_from(["pro", "qubit"]))}


def check_self_adjoint(case):
    import numpy as np
    from discopy import rigid
    if case["ty"] == "pro":
        x = rigid.PRO(1)
    else:
        from discopy.quantum.circuit import qubit as x
    p = ["p", 0]
    layers, boxes, offsets = [], [], []
    for name, off, n_in, n_out in case["ops"]:
        if name == "cap":
            layers.append([{"k": "cap", "l": p, "r": p}, off])
            boxes.append(rigid.Cap(x, x))
        elif name == "cup":
            layers.append([{"k": "cup", "l": p, "r": p}, off])
            boxes.append(rigid.Cup(x, x))
        else:
            layers.append([{"k": "box", "name": name, "dom": [p] * n_in,
                            "cod": [p] * n_out, "dag": False}, off])
            boxes.append(rigid.Box(name, x ** n_in, x ** n_out))
        offsets.append(off)
    spec = {"cls": "rigid", "dom": [p] * case["dom"], "layers": layers}
    cod = specs.spec_cod(spec)
    d = rigid.Diagram(x ** case["dom"], x ** len(cod), boxes, offsets)
    specs.well_typed(d, "self-adjoint diagram")
    interp = common.arrays_of(default_interp(spec, {"p": 2}, len(layers)))
    dims, arrays = interp

    def spec_of(step):
        out = []
        for bx, off in zip(step.boxes, step.offsets):
            if is_cap(bx):
                out.append([{"k": "cap", "l": p, "r": p}, off])
            elif is_cup(bx):
                out.append([{"k": "cup", "l": p, "r": p}, off])
            else:
                out.append([{"k": "box", "name": bx.name, "dom": [p] * len(
                    bx.dom), "cod": [p] * len(bx.cod), "dag": False}, off])
        return dict(spec, layers=out)
    ref = specs.ref_eval(spec, dims, arrays)
    conn = specs.connected(case["dom"], arity_list(d))
    steps, seen = 0, set()
    try:
        for steps, step in enumerate(d.normalize(left=case["left"])):
            key = repr(specs.dkey(step))
            if key in seen:   # a cycle: only disconnected diagrams may
                require(not conn, "C07:NotImplementedError-on-connected",
                        str(d))
                break
            seen.add(key)
            require(steps < 300, "C07:non-termination", str(d))
            specs.well_typed(step, "normalisation step")
            require(common.exact_equal(
                ref, specs.ref_eval(spec_of(step), dims, arrays)),
                "C07:denotation-changed", lambda: "{} -> {}".format(d, step))
        nf = d.normal_form(left=case["left"])
    except NotImplementedError:
        require(not conn, "C07:NotImplementedError-on-connected", str(d))
        return dict(nt=False, labels=["NotImplementedError"])
    specs.well_typed(nf, "normal form")
    require(common.exact_equal(ref, specs.ref_eval(spec_of(nf), dims,
                                                   arrays)),
            "C07:denotation-changed", lambda: "{} -> {}".format(d, nf))
    loops = sum(1 for (a, _), (b, _) in zip(layers, layers[1:])
                if a["k"] == "cap" and b["k"] == "cup")
    return dict(nt=loops > 0 or len(nf) < len(d), labels=[
        case["ty"], "removed" if len(nf) < len(d) else "kept"],
        show="{} -> {}".format(common.show(d, 150), common.show(nf, 100)))


core.register("C07", [
    Facet("self_adjoint", self_adjoint_cases, check_self_adjoint,
          n_quick=1200, shards_quick=4, rule="diagrams of boxes, cups and "
          "caps over one self-adjoint wire type (PRO(1), qubit): loops and "
          "traces next to snakes; every step and the normal form keep the "
          "denotation"),
    Facet("snaky", snaky_cases, check_snaky, n_quick=3200, shards_quick=8,
          rule=RULE),
    Facet("free", free_cases, check_free, n_quick=1600, shards_quick=4,
          rule="free rigid generator with caps and cups anywhere (mostly no "
          "removable snake; disconnected results allowed to raise "
          "NotImplementedError)"),
    Facet("constructions", transpose_cases, check_transpose, n_quick=1600,
          shards_quick=4, rule="(double) transposes, caps >> cups of "
          "composite types and curry/uncurry of connected base diagrams"),
], rule=RULE, assumptions=[
    "denotation compared exactly under Gaussian-integer interpretations "
    "where cups and caps are reshaped identities and adjoint types share the "
    "dimension", "termination decided by a cap of 400 yielded steps"])
