"""Facet registry, Hypothesis driver, sharding, failure capture, evidence.

A *facet* is one executable sub-check of a property:
    strategy(tier) -> Hypothesis strategy producing a JSON-able spec
    check(spec)    -> dict(nt=bool, labels=[...], show=str) or raises

`Violation` is raised by oracles.  Any other exception escaping `check` whose
traceback passes through the code under test is a violation too (bucketed by
type and innermost discopy frame); an exception that never entered discopy is a
harness error (exit 2), never a verdict.
"""
import os
import sys
import json
import time
import signal
import hashlib
import traceback
import collections
import multiprocessing

ROOT = os.path.dirname(os.path.dirname(os.path.abspath(__file__)))
REPO = os.environ.get("VERIF_REPO", "/repo")
if REPO not in sys.path:
    sys.path.insert(0, REPO)
DEPS = os.path.join(ROOT, ".deps")
if os.path.isdir(DEPS) and DEPS not in sys.path:
    sys.path.append(DEPS)
os.environ.setdefault("MPLBACKEND", "Agg")
sys.dont_write_bytecode = True

import warnings  # noqa: E402
warnings.filterwarnings("ignore")


class Violation(Exception):
    """ An oracle disagrees with the library. """
    def __init__(self, label, detail=""):
        super().__init__("{}: {}".format(label, detail))
        self.label, self.detail = label, detail


class HarnessError(Exception):
    """ The harness itself is broken: exit 2, never a verdict. """


class CaseTimeout(BaseException):
    """ Watchdog: inconclusive, never a violation.  A BaseException, so that
    the `except Exception` clauses of the code under test (and of its
    dependencies) do not turn the interruption into some other error. """


class Abort(BaseException):
    """ Stop a shard at once (Hypothesis does not shrink BaseExceptions). """


def require(cond, label, detail=""):
    if not cond:
        raise Violation(label, detail() if callable(detail) else detail)


class Facet:
    def __init__(self, name, strategy, check, n_quick=200, n_thorough=None,
                 shards_quick=1, shards_thorough=16, enum=None, rule="",
                 watchdog=(30, 180), max_inconclusive=0.02):
        self.name, self.strategy, self.check = name, strategy, check
        self.n_quick = n_quick
        self.n_thorough = n_thorough if n_thorough is not None\
            else max(1, n_quick * 20 // shards_thorough)
        self.shards_quick, self.shards_thorough = shards_quick, shards_thorough
        self.enum = enum  # callable(tier) -> iterator of specs (exhaustive)
        self.rule = rule
        self.watchdog = watchdog
        self.max_inconclusive = max_inconclusive


PROPERTIES = collections.OrderedDict()  # pid -> dict(facets, selftests, ...)


def register(pid, facets, selftests=(), rule="", assumptions=()):
    PROPERTIES[pid] = dict(
        facets=collections.OrderedDict((f.name, f) for f in facets),
        selftests=list(selftests), rule=rule, assumptions=list(assumptions))


def load_property(pid):
    import importlib
    importlib.import_module("harness.props." + pid.lower())
    return PROPERTIES[pid]


# ---------------------------------------------------------------- signatures

def discopy_dir():
    import discopy
    path = os.path.dirname(os.path.abspath(discopy.__file__))
    if not path.startswith(os.path.abspath(REPO)):
        raise HarnessError("discopy imported from {} not from {}".format(
            path, REPO))
    return path


def signature(exc):
    """ (kind, label) used to bucket failures. """
    if isinstance(exc, Violation):
        return "violation", exc.label
    ddir = discopy_dir()
    frames = traceback.extract_tb(exc.__traceback__)
    inside = [f for f in frames if os.path.abspath(f.filename).startswith(ddir)]
    if not inside:
        return "harness", "{}@harness".format(type(exc).__name__)
    last = inside[-1]
    return "exception", "{}@{}:{}".format(
        type(exc).__name__, os.path.basename(last.filename), last.name)


def spec_hash(spec):
    text = json.dumps(spec, sort_keys=True, default=str)
    return int(hashlib.blake2b(text.encode(), digest_size=8).hexdigest(), 16)


class _Watchdog:
    """ Interrupt a case after `seconds` of CPU time of this process (the
    machine's load does not matter), or ten times as much wall-clock time.
    The timers keep firing every second until the case is left, and `fired`
    records that they did: whatever the case raises after that point is the
    interruption in another guise (an interrupted `sympify` reports "cannot
    sympify", an interrupted comparison reports "not equal"), never a verdict.
    """
    def __init__(self, seconds):
        self.seconds, self.fired = seconds, False

    def _fire(self, *_):
        self.fired = True
        raise CaseTimeout()

    def __enter__(self):
        self.old = (signal.signal(signal.SIGVTALRM, self._fire),
                    signal.signal(signal.SIGALRM, self._fire))
        signal.setitimer(signal.ITIMER_VIRTUAL, self.seconds, 1)
        signal.setitimer(signal.ITIMER_REAL, 10 * self.seconds, 1)
        return self

    def __exit__(self, *exc):
        signal.setitimer(signal.ITIMER_VIRTUAL, 0)
        signal.setitimer(signal.ITIMER_REAL, 0)
        signal.signal(signal.SIGVTALRM, self.old[0])
        signal.signal(signal.SIGALRM, self.old[1])
        return False


# ---------------------------------------------------------------- running

def _new_stats():
    return dict(evaluations=0, nontrivial=set(), labels=collections.Counter(),
                samples=[], known=collections.Counter(), inconclusive=[],
                failure=None, harness_error=None, wall=0.)


def _run_case(facet, pid, spec, stats, tier, exclusions=True):
    """ Run one case, fold the outcome into stats. Raises on failure. """
    from harness import findings
    stats["evaluations"] += 1
    dog = _Watchdog(facet.watchdog[0 if tier == "quick" else 1])

    def timed_out():
        stats["inconclusive"].append(spec)
        if len(stats["inconclusive"]) > 4:
            stats["harness_error"] = "more than 4 cases of facet {} hit the "\
                "watchdog in one shard: size bounds are wrong, or the code "\
                "under test hangs".format(facet.name)
            raise Abort(stats["harness_error"])
    try:
        with dog:
            info = facet.check(spec) or {}
    except CaseTimeout:
        return timed_out()
    except Exception as exc:  # noqa
        if dog.fired:
            return timed_out()
        kind, label = signature(exc)
        if kind == "harness":
            stats["harness_error"] = "".join(traceback.format_exception(
                type(exc), exc, exc.__traceback__))[-3000:]
            raise
        key = findings.match(pid, facet.name, spec, label)\
            if exclusions else None
        if key is not None:
            stats["known"][key] += 1
            return
        stats["failure"] = dict(
            spec=spec, kind=kind, label=label, message=str(exc)[:2000],
            trace="".join(traceback.format_exception(
                type(exc), exc, exc.__traceback__))[-3000:])
        raise
    for label in info.get("labels", ()):
        stats["labels"][label] += 1
    if info.get("nt"):
        stats["labels"]["NT"] += 1
        stats["nontrivial"].add(spec_hash(spec))
        if len(stats["samples"]) < 3:
            stats["samples"].append(
                dict(show=info.get("show", ""), spec=spec))
    elif not stats["samples"] and stats["evaluations"] > 20:
        stats["samples"].append(dict(show=info.get("show", ""), spec=spec))


def run_shard(args):
    """ Worker entry point: one (facet, shard) task. """
    pid, fname, tier, seed, shard, nshards, exclusions = args
    start = time.time()
    stats = _new_stats()
    try:
        prop = load_property(pid)
        facet = prop["facets"][fname]
        if facet.enum is not None:
            for i, spec in enumerate(facet.enum(tier)):
                if i % nshards != shard:
                    continue
                try:
                    _run_case(facet, pid, spec, stats, tier, exclusions)
                except (Exception, Abort):  # noqa
                    break
            stats["exhaustive"] = True
        else:
            _run_hypothesis(facet, pid, stats, tier, seed, shard, exclusions)
    except Exception as exc:  # noqa
        if stats["failure"] is None and stats["harness_error"] is None:
            stats["harness_error"] = "".join(traceback.format_exception(
                type(exc), exc, exc.__traceback__))[-3000:]
    stats["wall"] = time.time() - start
    stats["nontrivial"] = list(stats["nontrivial"])
    stats["inconclusive"] = stats["inconclusive"][:3]\
        + [None] * max(0, len(stats["inconclusive"]) - 3)
    return pid, fname, shard, stats


def _run_hypothesis(facet, pid, stats, tier, seed, shard, exclusions):
    import hypothesis
    from hypothesis import given, settings, HealthCheck, Phase
    n = facet.n_quick if tier == "quick" else facet.n_thorough
    nshards = facet.shards_quick if tier == "quick" else facet.shards_thorough
    n = max(1, n // nshards) if tier == "quick" else n

    @hypothesis.seed(seed * 1000 + shard)
    @settings(max_examples=n, database=None, deadline=None,
              derandomize=False, report_multiple_bugs=False,
              suppress_health_check=list(HealthCheck),
              phases=[Phase.generate, Phase.shrink])
    @given(facet.strategy(tier))
    def test(spec):
        _run_case(facet, pid, spec, stats, tier, exclusions)

    try:
        test()
    except Abort:
        pass
    except Exception as exc:  # noqa
        if stats["failure"] is None and stats["harness_error"] is None:
            stats["harness_error"] = "".join(traceback.format_exception(
                type(exc), exc, exc.__traceback__))[-3000:]


def replay_case(pid, fname, spec):
    """ Re-run one saved case without Hypothesis. Returns None or failure. """
    prop = load_property(pid)
    facet = prop["facets"][fname]
    dog = _Watchdog(facet.watchdog[1])
    try:
        with dog:
            facet.check(spec)
    except CaseTimeout:
        return dict(kind="timeout", label="timeout", message="")
    except Exception as exc:  # noqa
        if dog.fired:
            return dict(kind="timeout", label="timeout", message="")
        kind, label = signature(exc)
        return dict(kind=kind, label=label, message=str(exc)[:2000],
                    trace="".join(traceback.format_exception(
                        type(exc), exc, exc.__traceback__))[-3000:])
    return None


def _confirmed(ctx, pid, fname, spec):
    """ Does the failing case fail again, on its own, in a fresh process?
    (Every check is a function of its case; a failure that does not come back
    was caused by something else - an interruption, the machine - and is not
    evidence against the code.) """
    for _ in range(2):
        with ctx.Pool(1, maxtasksperchild=1) as pool:
            outcome = pool.apply(replay_case, (pid, fname, spec))
        if outcome is not None and outcome["kind"] != "timeout":
            return True
    return False


def write_replay(pid, fname, failure, seed, tier):
    out = os.path.join(os.environ.get("VERIF_EVIDENCE_DIR") or ROOT,
                       "replays", "out")
    os.makedirs(out, exist_ok=True)
    name = "{}-{}-{:016x}.json".format(
        pid, fname, spec_hash([fname, failure["spec"]]))
    path = os.path.join(out, name)
    with open(path, "w") as f:
        json.dump(dict(property=pid, facet=fname, spec=failure["spec"],
                       label=failure["label"], kind=failure["kind"],
                       message=failure["message"], seed=seed, tier=tier,
                       trace=failure.get("trace", "")),
                  f, indent=1, default=str)
    return os.path.relpath(path, ROOT) if path.startswith(ROOT) else path


def run_property(pid, tier="quick", seed=1, only=None, exclusions=True,
                 procs=None, budget_s=None):
    """ Run all facets of a property; print verdict lines; return exit code. """
    from harness import findings
    start = time.time()
    prop = load_property(pid)
    code = 0
    # -- replay tier: oracle self-tests, known findings, fixed findings
    for test in prop["selftests"]:
        try:
            test()
        except Exception:  # noqa
            print("HARNESS-ERROR property={} oracle self-test {} failed".format(
                pid, getattr(test, "__name__", test)))
            traceback.print_exc()
            return 2
    known_lines, rcode = findings.replay_tier(pid, exclusions)
    for line in known_lines:
        print(line)
    code = max(code, rcode)
    # -- generated search
    tasks = []
    for fname, facet in prop["facets"].items():
        if only and fname not in only:
            continue
        nshards = facet.shards_quick if tier == "quick"\
            else facet.shards_thorough
        for shard in range(nshards):
            tasks.append((pid, fname, tier, seed, shard, nshards, exclusions))
    procs = procs or min(16, max(1, len(tasks)))
    merged = collections.OrderedDict()
    ctx = multiprocessing.get_context("fork")
    truncated = 0
    with ctx.Pool(procs, maxtasksperchild=1) as pool:
        results = pool.imap_unordered(run_shard, tasks)
        for _ in tasks:
            try:
                left = None if budget_s is None\
                    else max(1, budget_s - (time.time() - start))
                _, fname, shard, stats = results.next(timeout=left)
            except multiprocessing.TimeoutError:
                truncated = len(tasks) - sum(
                    m["shards"] for m in merged.values())
                pool.terminate()
                break
            m = merged.setdefault(fname, dict(
                evaluations=0, nontrivial=set(), labels=collections.Counter(),
                samples=[], known=collections.Counter(), inconclusive=0,
                inconclusive_samples=[], failures=[], harness_errors=[],
                shards=0, wall=0., exhaustive=False))
            m["evaluations"] += stats["evaluations"]
            m["nontrivial"].update(stats["nontrivial"])
            m["labels"].update(stats["labels"])
            m["known"].update(stats["known"])
            if len(m["samples"]) < 3:
                m["samples"] += stats["samples"][:3 - len(m["samples"])]
            m["inconclusive"] += len(stats["inconclusive"])
            m["inconclusive_samples"] += [
                s for s in stats["inconclusive"] if s is not None][:2]
            m["shards"] += 1
            m["wall"] = max(m["wall"], stats["wall"])
            m["exhaustive"] = m["exhaustive"] or stats.get("exhaustive", False)
            if stats["failure"] is not None:
                m["failures"].append(stats["failure"])
            if stats["harness_error"] is not None:
                m["harness_errors"].append(stats["harness_error"])
    violations = 0
    for fname, m in merged.items():
        facet = prop["facets"][fname]
        seen = set()
        for failure in m["failures"]:
            if failure["label"] in seen:
                continue
            seen.add(failure["label"])
            if not _confirmed(ctx, pid, fname, failure["spec"]):
                # not a function of the saved input: nothing to report
                m["unconfirmed"] = m.get("unconfirmed", 0) + 1
                print("UNCONFIRMED property={} facet={} label={}: the case "
                      "passes when replayed in a fresh process; counted as "
                      "inconclusive".format(pid, fname, failure["label"]))
                continue
            path = write_replay(pid, fname, failure, seed, tier)
            print("VIOLATION property={} replay={}".format(pid, path))
            print("  facet={} label={} :: {}".format(
                fname, failure["label"], failure["message"][:300]))
            violations += 1
            code = max(code, 1)
        for err in m["harness_errors"]:
            print("HARNESS-ERROR property={} facet={}\n{}".format(
                pid, fname, err))
            code = max(code, 2) if code != 1 else code
        if m["evaluations"] and\
                m["inconclusive"] > facet.max_inconclusive * m["evaluations"]\
                and m["inconclusive"] > 2:
            print("HARNESS-ERROR property={} facet={} {} of {} cases hit the "
                  "watchdog".format(pid, fname, m["inconclusive"],
                                    m["evaluations"]))
            code = max(code, 2) if code != 1 else code
        for key, count in m["known"].items():
            print("KNOWN-FINDING: property={} key={} ({} generated cases in "
                  "facet {} hit it and were set aside)".format(
                      pid, key, count, fname))
    write_evidence(pid, prop, merged, tier, seed, time.time() - start,
                   violations, truncated, known_lines)
    return code


def write_evidence(pid, prop, merged, tier, seed, wall, violations, truncated,
                   known_lines):
    facets = {}
    samples = []
    for fname, m in merged.items():
        facets[fname] = dict(
            evaluations=m["evaluations"],
            distinct_nontrivial=len(m["nontrivial"]),
            rule=prop["facets"][fname].rule,
            labels=dict(sorted(m["labels"].items())),
            excluded_by_known_finding=dict(m["known"]),
            inconclusive_timeouts=m["inconclusive"],
            inconclusive_samples=m["inconclusive_samples"][:2],
            failures_not_reproduced_in_a_fresh_process=m.get(
                "unconfirmed", 0),
            exhaustive=m["exhaustive"], shards=m["shards"],
            wall_s=round(m["wall"], 2), failures=len(m["failures"]))
        for sample in m["samples"][:2]:
            samples.append(dict(facet=fname, **sample))
    evidence = dict(
        property_id=pid, tier=tier, seed=int(seed), level="exploration",
        coverage=dict(
            evaluations=sum(m["evaluations"] for m in merged.values()),
            distinct_nontrivial=sum(
                len(m["nontrivial"]) for m in merged.values()),
            rule=prop["rule"], samples=samples, facets=facets,
            exhaustive=bool(merged) and all(
                m["exhaustive"] for m in merged.values()),
            shards_not_run_because_of_wall_clock_budget=truncated,
            known_findings_replayed=known_lines),
        assumptions=prop["assumptions"], wall_s=round(wall, 2),
        violations=violations)
    edir = os.path.join(os.environ.get("VERIF_EVIDENCE_DIR") or ROOT,
                        "evidence")
    os.makedirs(edir, exist_ok=True)
    path = os.path.join(edir, pid + ".json")
    with open(path + ".tmp", "w") as f:
        json.dump(evidence, f, indent=1, default=str)
    os.replace(path + ".tmp", path)
