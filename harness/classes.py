"""Adapters for the diagram classes beyond monoidal/rigid: how a spec is built
with each class's public constructors. Importing this module registers them.

cat       : one-wire types [[name, 0]], boxes 1 -> 1 at offset 0
tensor    : names are ints >= 2 (dimensions); box data from "vals" or default
circuit   : see harness.qspec (gates)
zx        : see harness.qspec (spiders)
biclosed  : objects [name, 0] | {"o": [left, right]} | {"u": [left, right]}
cartesian : wires [1, 0]; boxes carry string-term functions
"""
import numpy as np

from harness import specs
from harness.core import HarnessError


# ------------------------------------------------------------------ cat

def _cat_ty(t):
    from discopy import cat
    if len(t) != 1:
        raise HarnessError("cat types have exactly one wire")
    return cat.Ob(t[0][0])


def _cat_box(b):
    from discopy import cat
    kw = {} if b.get("data") is None else {"data": b["data"]}
    if b.get("dag"):
        return cat.Box(b["name"], _cat_ty(b["cod"]), _cat_ty(b["dom"]),
                       **kw).dagger()
    return cat.Box(b["name"], _cat_ty(b["dom"]), _cat_ty(b["cod"]), **kw)


def _cat_mod():
    from discopy import cat
    return cat


specs.register_class("cat", _cat_mod, _cat_ty, _cat_box,
                     idf=lambda t: _cat_mod().Id(_cat_ty(t)))


# ------------------------------------------------------------------ tensor

def _tensor_mod():
    from discopy import tensor
    return tensor


def _dim(t):
    from discopy.tensor import Dim
    return Dim(*[n for n, _ in t])


def default_vals(b):
    """ Deterministic small Gaussian integers for a tensor box spec. """
    dom, cod = (b["cod"], b["dom"]) if b.get("dag") else (b["dom"], b["cod"])
    size = int(np.prod([n for n, _ in dom + cod] or [1]))
    seed = sum(ord(c) for c in str(b["name"])) + 7 * len(dom) + 3 * len(cod)
    re = [((seed + 3 * i) % 5) - 2 for i in range(size)]
    im = [0 if b.get("real") else ((seed + 2 * i) % 3) - 1
          for i in range(size)]
    return re + im


def tensor_array(b):
    """ ndarray (dims(dom)+dims(cod)) of the *undaggered* generator. """
    dom, cod = (b["cod"], b["dom"]) if b.get("dag") else (b["dom"], b["cod"])
    shape = [n for n, _ in dom + cod]
    return specs.cplx(b.get("vals") or default_vals(b), shape)


def _tensor_box(b):
    from discopy import tensor
    k = b["k"]
    if k == "box":
        arr = tensor_array(b)
        if not np.any(arr.imag):
            # hand real data over as a real (integer or float) array, as a
            # user would: functions applied entry by entry may leave the dtype
            vals = b.get("vals") or default_vals(b)
            arr = arr.real.astype(np.int64 if all(
                isinstance(v, int) for v in vals) else float)
        if b.get("objarr"):
            # Python numbers in an object array (what symbolic entries use)
            arr = np.array(arr.tolist(), dtype=object)
        if b.get("dag"):
            return tensor.Box(b["name"], _dim(b["cod"]), _dim(b["dom"]),
                              arr).dagger()
        return tensor.Box(b["name"], _dim(b["dom"]), _dim(b["cod"]), arr)
    if k == "swap":
        return tensor.Swap(_dim([b["l"]]), _dim([b["r"]]))
    if k == "spider":
        return tensor.Spider(b["n"][0], b["n"][1], b["t"][0])
    raise HarnessError(k)


specs.register_class("tensor", _tensor_mod, _dim, _tensor_box)


# tensor bubbles: {"k": "bubble", "inside": diagram spec, "f": name}
BUBBLE_FUNCS = {
    "not": lambda x: int(not x),
    "square": lambda x: x * x,
    "plus1": lambda x: x + 1,
    "double": lambda x: 2 * x,
    "half": lambda x: x / 2,
    "phase": lambda x: x * 1j,
}


def _bubble_dom(b):
    return b["inside"]["dom"]


def _bubble_cod(b):
    return specs.spec_cod(b["inside"])


specs.register_kind("bubble", _bubble_dom, _bubble_cod)

_plain_tensor_box = _tensor_box


def _tensor_box_with_bubbles(b):
    if b["k"] == "bubble":
        inside = specs.build(b["inside"])
        return inside.bubble(func=BUBBLE_FUNCS[b["f"]])
    return _plain_tensor_box(b)


specs.register_class("tensor", _tensor_mod, _dim, _tensor_box_with_bubbles)


def tensor_ref_eval(spec):
    """ O4 for a tensor-class spec (names are dimensions). """
    dims = _IdentityDims()

    def box_tensor(b):
        k = b["k"]
        if k == "box":
            arr = tensor_array(b)
            if b.get("dag"):
                n = len(b["cod"])
                return np.conj(np.moveaxis(
                    arr, list(range(n)), list(range(arr.ndim - n, arr.ndim))))
            return arr
        if k == "swap":
            return specs.swap_tensor(b["l"][0], b["r"][0])
        if k == "spider":
            return specs.delta(sum(b["n"]), b["t"][0])
        if k == "bubble":
            inner = tensor_ref_eval(b["inside"])
            func = BUBBLE_FUNCS[b["f"]]
            flat = [func(complex(x)) for x in inner.flatten()]
            return np.array(flat, dtype=complex).reshape(inner.shape)
        raise HarnessError(k)
    return specs.ref_eval(spec, dims, None, box_tensor)


class _IdentityDims(dict):
    def __missing__(self, key):
        return key
