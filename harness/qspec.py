"""Specs for circuits (class "circuit") and ZX diagrams (class "zx").

Circuit box spec  {"k": "g", "g": NAME, "a": [args], "dag": bool}
  named gates  H S T X Y Z CX CZ          (dag allowed: S, T, Y, ...)
  rotations    Rx Ry Rz CRz CRx CU1       a = [phase]
  C            a = [inner one-qubit gate spec]        Controlled(inner)
  Ket Bra      a = bits ; Bits a = bits (dag: the effect)
  Measure      a = [n, destructive, override_bits]
  Encode       a = [n, constructive, reset_bits]
  Discard MixedState   a = [list of "bit"/"qubit"]
  Copy Match
  scalar       a = [re, im], "mixed": bool ; sqrt a = [x]
  CGate        a = [name, n_in, n_out, vals]  (dag allowed)
swaps are {"k": "swap", "l": [t, 0], "r": [t, 0]} with t in bit/qubit.

ZX box spec {"k": "zx", "g": "Z"|"X"|"H"|"scalar", "n": [in, out], "ph": x}
Phases / numbers are floats, or strings parsed by sympy for symbolic ones.
Types: wires ["bit", 0] / ["qubit", 0] (circuit), [1, 0] (zx).
"""
import numpy as np

from harness import specs
from harness.core import HarnessError

DIAGRAM_CLASSES = ["circuit", "zx"]
Q, B = ["qubit", 0], ["bit", 0]

ONE_QUBIT = ["H", "S", "T", "X", "Y", "Z"]
TWO_QUBIT = ["CX", "CZ"]
ROT1 = ["Rx", "Ry", "Rz"]
ROT2 = ["CRz", "CRx", "CU1"]
SELF_ADJOINT = {"H", "X", "Z", "CX", "CZ"}


def custom_matrix(n, idx):
    """ Fixed non-symmetric unitaries for user-defined gates QuantumGate(name,
    n, array): products of standard matrices, written out here. """
    r = 2 ** -0.5
    H = np.array([[r, r], [r, -r]], dtype=complex)
    S = np.diag([1, 1j]).astype(complex)
    T = np.diag([1, np.exp(0.25j * np.pi)]).astype(complex)
    X = np.array([[0, 1], [1, 0]], dtype=complex)
    CX = np.eye(4, dtype=complex)[[0, 1, 3, 2]]
    if n == 1:
        return [H @ T, S @ H @ T, T @ H @ S @ H][idx % 3]
    SWAP = np.eye(4, dtype=complex)[[0, 2, 1, 3]]
    return [np.kron(H, S) @ CX @ np.kron(T, H),
            CX @ np.kron(S @ H, T) @ np.kron(np.eye(2), H @ T),
            np.kron(T @ H, X @ S) @ CX @ np.kron(H, H @ S),
            # not Hermitian, but equal to their adjoint with the qubits
            # reversed (G = R G^dagger R)
            np.kron(S, S.conj().T), SWAP @ CX][idx % 5]


def num(x):
    """ Number or sympy expression from its spec form. """
    if isinstance(x, str):
        import sympy
        return sympy.sympify(x, locals=symbol_table())
    if isinstance(x, (list, tuple)):
        return complex(x[0], x[1]) if x[1] else float(x[0])\
            if isinstance(x[0], float) else complex(x[0], x[1])
    return x


_SYMS = {}


def symbol_table():
    import sympy
    if not _SYMS:
        for n in ("x", "y", "z", "w"):
            _SYMS[n] = sympy.Symbol(n)
        for n in ("u", "v"):
            _SYMS[n] = sympy.Symbol(n, real=True)
    return _SYMS


def gate_sig(b):
    g, a = b["g"], b.get("a", [])
    if g in ONE_QUBIT or g in ROT1:
        sig = [Q], [Q]
    elif g in TWO_QUBIT or g in ROT2 or g == "C":
        sig = [Q, Q], [Q, Q]
    elif g == "Q":
        sig = [Q] * a[0], [Q] * a[0]
    elif g == "Ket":
        sig = [], [Q] * len(a)
    elif g == "Bra":
        sig = [Q] * len(a), []
    elif g == "Bits":
        sig = [], [B] * len(a)
    elif g == "Measure":
        n, destructive, override = a
        sig = [Q] * n + ([B] * n if override else []),\
            ([] if destructive else [Q] * n) + [B] * n
    elif g == "Encode":
        n, constructive, reset = a
        sig = ([] if constructive else [Q] * n) + [B] * n,\
            [Q] * n + ([B] * n if reset else [])
    elif g == "Discard":
        sig = [[t, 0] for t in a], []
    elif g == "MixedState":
        sig = [], [[t, 0] for t in a]
    elif g == "Copy":
        sig = [B], [B, B]
    elif g == "Match":
        sig = [B, B], [B]
    elif g in ("scalar", "sqrt"):
        sig = [], []
    elif g == "CGate":
        sig = [B] * a[1], [B] * a[2]
    else:
        raise HarnessError("unknown gate " + g)
    if b.get("dag") and g in ("Bits", "CGate"):
        sig = sig[1], sig[0]
    return sig


def gate_dagger(b):
    g, a = b["g"], b.get("a", [])
    if g in SELF_ADJOINT:
        return b
    if g in ROT1 + ROT2:
        return dict(b, a=[neg(a[0])])
    if g == "C":
        return dict(b, a=[gate_dagger(a[0])])
    swap = {"Ket": "Bra", "Bra": "Ket", "Measure": "Encode",
            "Encode": "Measure", "Discard": "MixedState",
            "MixedState": "Discard", "Copy": "Match", "Match": "Copy"}
    if g in swap:
        return dict(b, g=swap[g])
    if g in ("scalar",):
        return dict(b, a=[a[0], -a[1]]) if not isinstance(a[0], str)\
            else dict(b, a=["conjugate({})".format(a[0]), 0])
    if g == "sqrt":
        return b
    return dict(b, dag=not b.get("dag", False))


def neg(x):
    return "-({})".format(x) if isinstance(x, str) else -x


specs.register_kind("g", lambda b: gate_sig(b)[0], lambda b: gate_sig(b)[1],
                    gate_dagger)


def _circuit_mod():
    from discopy.quantum import circuit

    class Mod:
        Diagram = circuit.Circuit
        Id = circuit.Id
        Sum = circuit.Sum
        Box = circuit.Box
        Swap = circuit.Swap
    return Mod


def cty(t):
    from discopy.quantum.circuit import Ty, bit, qubit
    return Ty().tensor(*[bit if n == "bit" else qubit for n, _ in t])\
        if t else Ty()


def gate(b):
    """ Library box for a circuit gate spec. """
    from discopy.quantum import gates, circuit
    g, a = b["g"], b.get("a", [])
    dag = b.get("dag", False)
    if g in ONE_QUBIT + TWO_QUBIT:
        box = getattr(gates, g)
        return box.dagger() if dag else box
    if g in ROT1 + ROT2:
        return getattr(gates, g)(num(a[0]))
    if g == "C":
        return gates.Controlled(gate(a[0]))
    if g == "Q":
        box = gates.QuantumGate("Q%d%d" % tuple(a), a[0],
                                array=custom_matrix(*a).flatten().tolist())
        return box.dagger() if dag else box
    if g == "Ket":
        return gates.Ket(*a)
    if g == "Bra":
        return gates.Bra(*a)
    if g == "Bits":
        box = gates.Bits(*a)
        return box.dagger() if dag else box
    if g == "Measure":
        return circuit.Measure(a[0], destructive=a[1], override_bits=a[2])
    if g == "Encode":
        return circuit.Encode(a[0], constructive=a[1], reset_bits=a[2])
    if g == "Discard":
        return circuit.Discard(cty([[t, 0] for t in a]))
    if g == "MixedState":
        return circuit.MixedState(cty([[t, 0] for t in a]))
    if g == "Copy":
        return gates.Copy()
    if g == "Match":
        return gates.Match()
    if g == "scalar":
        value = num(a[0]) if isinstance(a[0], str) else complex(a[0], a[1])
        return gates.scalar(value, is_mixed=b.get("mixed", False))
    if g == "sqrt":
        return gates.sqrt(num(a[0]))
    if g == "CGate":
        name, n_in, n_out, vals = a
        box = gates.ClassicalGate(name, n_in, n_out, cgate_data(a))
        return box.dagger() if dag else box
    raise HarnessError(g)


def cgate_data(a):
    _, n_in, n_out, vals = a
    if any(isinstance(v, str) for v in vals):
        return [num(v) for v in vals]
    return np.array(vals, dtype=float).reshape((2,) * (n_in + n_out) or (1,))


def _circuit_box(b):
    from discopy.quantum import circuit
    if b["k"] == "g":
        return gate(b)
    if b["k"] == "swap":
        return circuit.Swap(cty([b["l"]]), cty([b["r"]]))
    raise HarnessError(b["k"])


specs.register_class("circuit", _circuit_mod, cty, _circuit_box)


# ------------------------------------------------------------------ zx

def zx_sig(b):
    g = b["g"]
    if g in ("Z", "X", "Y"):
        return [[1, 0]] * b["n"][0], [[1, 0]] * b["n"][1]
    if g == "H":
        return [[1, 0]], [[1, 0]]
    if g == "scalar":
        return [], []
    raise HarnessError(g)


def zx_dagger(b):
    g = b["g"]
    if g in ("Z", "X", "Y"):
        return dict(b, n=[b["n"][1], b["n"][0]], ph=neg(b.get("ph", 0)))
    if g == "H":
        return b
    if g == "scalar":
        v = b["ph"]
        return dict(b, ph="conjugate({})".format(v) if isinstance(v, str)
                    else [v[0], -v[1]])
    raise HarnessError(g)


specs.register_kind("zx", lambda b: zx_sig(b)[0], lambda b: zx_sig(b)[1],
                    zx_dagger)


def _zx_mod():
    from discopy.quantum import zx
    return zx


def zty(t):
    from discopy.rigid import PRO
    return PRO(len(t))


def _zx_box(b):
    from discopy.quantum import zx
    if b["k"] == "swap":
        return zx.SWAP
    g = b["g"]
    if g in ("Z", "X", "Y"):
        return getattr(zx, g)(b["n"][0], b["n"][1], num(b.get("ph", 0)))
    if g == "H":
        return zx.H
    if g == "scalar":
        v = b["ph"]
        return zx.scalar(num(v) if isinstance(v, str) else complex(*v))
    raise HarnessError(g)


specs.register_class("zx", _zx_mod, zty, _zx_box,
                     idf=lambda t: _zx_mod().Id(len(t)))


# ------------------------------------------------------------------ generators

def _phases():
    from hypothesis import strategies as st
    return st.one_of(
        st.sampled_from([0, 0.25, -0.25, 0.5, -0.5, 1, 2, 0.125, 0.75]),
        st.integers(-128, 128).map(lambda k: k / 64))


def jitter(draw, layers):
    """ Near-equal parameters: with probability 1/3 per later rotation, its
    phase becomes an earlier rotation's phase plus a small offset (the shape
    caches keyed on printed / rounded parameters get wrong). Returns the
    number of phases changed. """
    from hypothesis import strategies as st
    seen, changed = [], 0
    for b, _ in layers:
        if b["k"] != "g" or b["g"] not in ROT1 + ROT2\
                or isinstance(b["a"][0], str):
            continue
        same_arity = [x for x in seen if (x[0] in ROT1) == (b["g"] in ROT1)]
        if same_arity and draw(st.integers(0, 2)) == 0:
            name, base = draw(st.sampled_from(same_arity))
            delta = draw(st.sampled_from(
                [1e-3, 2e-4, -3e-4, 5e-5, -1e-5, 1e-6]))
            if draw(st.integers(0, 3)):
                b["g"] = name
            b["a"] = [round(base + delta, 9)]
            changed += 1
        seen.append((b["g"], b["a"][0]))
    return changed


def circuit_layer(scan, max_width, gateset="all", symbolic=False):
    """ Strategy for one (boxspec, offset) legal on a bit/qubit scan. """
    from hypothesis import strategies as st

    @st.composite
    def strat(draw):
        def runs(t):
            out = []
            for i, x in enumerate(scan):
                if x[0] == t:
                    out.append(i)
            return out
        qs, bs = runs("qubit"), runs("bit")
        adj_q = [i for i in qs if i + 1 < len(scan)
                 and scan[i + 1][0] == "qubit"]
        adj_b = [i for i in bs if i + 1 < len(scan)
                 and scan[i + 1][0] == "bit"]
        room = max_width - len(scan)
        opts = []
        if qs:
            opts += ["measure", "measure", "one", "rot", "discardq", "bra",
                     "measure"]
        if bs:
            opts += ["encode", "cgate", "discardb", "bitsdag", "encode"]
            if room >= 1:
                opts.append("copy")
        if adj_q:
            opts += ["two", "rot2", "controlled"]
        if len(scan) >= 2:
            opts += ["swap", "swap"]
        if room >= 1:
            opts += ["ket", "bits", "mixed"]
        if adj_b:
            opts += ["match"]
        opts += ["scalar"]
        if gateset == "tk":
            opts = [o for o in opts if o not in ("mixed", "encode")]
            if qs:
                opts += ["one", "rot", "one"]
            if adj_q:
                opts += ["two", "two", "rot2", "controlled", "two", "qswap",
                         "bra2"]
        if gateset == "pure":
            opts = [o for o in opts if o in (
                "one", "rot", "bra", "two", "rot2", "controlled", "swap",
                "ket", "scalar")]
        kind = draw(st.sampled_from(opts))
        if kind == "one":
            g = draw(st.sampled_from(ONE_QUBIT))
            b = {"k": "g", "g": g}
            if g not in SELF_ADJOINT and draw(st.booleans()):
                b["dag"] = True
            return b, draw(st.sampled_from(qs))
        if kind == "rot":
            return {"k": "g", "g": draw(st.sampled_from(
                ["Rx", "Rz"] if gateset == "tk" else ROT1)),
                    "a": [draw(_phases())]}, draw(st.sampled_from(qs))
        if kind == "two":
            return {"k": "g", "g": draw(st.sampled_from(TWO_QUBIT))},\
                draw(st.sampled_from(adj_q))
        if kind == "rot2":
            return {"k": "g", "g": draw(st.sampled_from(
                ["CRz"] if gateset == "tk" else ROT2)),
                    "a": [draw(_phases())]}, draw(st.sampled_from(adj_q))
        if kind == "controlled":
            inner = {"k": "g", "g": draw(st.sampled_from(
                ["X", "Z", "H", "Y", "S"] if gateset == "tk"
                else ["X", "Z", "H"]))}
            return {"k": "g", "g": "C", "a": [inner]},\
                draw(st.sampled_from(adj_q))
        if kind == "qswap":
            off = draw(st.sampled_from(adj_q))
            return {"k": "swap", "l": scan[off], "r": scan[off + 1]}, off
        if kind == "bra2":
            off = draw(st.sampled_from(adj_q))
            n = 3 if off + 1 in adj_q and draw(st.booleans()) else 2
            return {"k": "g", "g": "Bra", "a": draw(st.lists(
                st.integers(0, 1), min_size=n, max_size=n))}, off
        if kind == "swap":
            off = draw(st.integers(0, len(scan) - 2))
            return {"k": "swap", "l": scan[off], "r": scan[off + 1]}, off
        if kind == "ket":
            n = draw(st.integers(1, min(3, room)))
            return {"k": "g", "g": "Ket", "a": draw(st.lists(
                st.integers(0, 1), min_size=n, max_size=n))},\
                draw(st.integers(0, len(scan)))
        if kind == "bits":
            n = draw(st.integers(1, min(3, room)))
            return {"k": "g", "g": "Bits", "a": draw(st.lists(
                st.integers(0, 0 if gateset == "tk" else 1), min_size=n,
                max_size=n))},\
                draw(st.integers(0, len(scan)))
        if kind == "mixed":
            t = draw(st.sampled_from(["bit", "qubit"]))
            return {"k": "g", "g": "MixedState", "a": [t]},\
                draw(st.integers(0, len(scan)))
        if kind == "bra":
            off = draw(st.sampled_from(qs))
            n = 2 if off in adj_q and draw(st.booleans()) else 1
            return {"k": "g", "g": "Bra", "a": draw(st.lists(
                st.integers(0, 1), min_size=n, max_size=n))}, off
        if kind == "measure":
            off = draw(st.sampled_from(qs))
            n = 1
            while off + n - 1 in adj_q and n < 3 and draw(
                    st.integers(0, 3)) == 0:
                n += 1
            destructive = draw(st.booleans()) or room < n
            after = scan[off + n:off + 2 * n]
            override = len(after) == n and all(w[0] == "bit" for w in after)\
                and draw(st.booleans())
            return {"k": "g", "g": "Measure",
                    "a": [n, destructive, override]}, off
        if kind == "discardq":
            return {"k": "g", "g": "Discard", "a": ["qubit"]},\
                draw(st.sampled_from(qs))
        if kind == "discardb":
            return {"k": "g", "g": "Discard", "a": ["bit"]},\
                draw(st.sampled_from(bs))
        if kind == "encode":
            # constructive=False needs a qubit right before the bit
            off = draw(st.sampled_from(bs))
            reset = room >= 1 and draw(st.integers(0, 2)) == 0
            if off > 0 and scan[off - 1][0] == "qubit" and draw(st.booleans()):
                return {"k": "g", "g": "Encode", "a": [1, False, reset]},\
                    off - 1
            return {"k": "g", "g": "Encode", "a": [1, True, reset]}, off
        if kind == "bitsdag":
            return {"k": "g", "g": "Bits", "a": [draw(st.integers(0, 1))],
                    "dag": True}, draw(st.sampled_from(bs))
        if kind == "copy":
            return {"k": "g", "g": "Copy"}, draw(st.sampled_from(bs))
        if kind == "match":
            return {"k": "g", "g": "Match"}, draw(st.sampled_from(adj_b))
        if kind == "cgate":
            off = draw(st.sampled_from(bs))
            n_in = 2 if off in adj_b and draw(st.booleans()) else 1
            n_out = draw(st.integers(0, min(2, max(0, room + n_in))))
            size = 2 ** (n_in + n_out)
            vals = draw(st.lists(st.integers(0, 3), min_size=size,
                                 max_size=size))
            b = {"k": "g", "g": "CGate", "a": [
                draw(st.sampled_from(["p", "q"])), n_in, n_out, vals]}
            return b, off
        re, im = draw(st.integers(-2, 2)), draw(st.integers(-2, 2))
        if gateset != "pure" and draw(st.booleans()):
            # a mixed scalar is a real weight (negative ones occur in
            # parameter-shift gradients)
            return {"k": "g", "g": "scalar", "a": [re + im / 2, 0],
                    "mixed": True}, draw(st.integers(0, len(scan)))
        return {"k": "g", "g": "scalar", "a": [re, im], "mixed": False},\
            draw(st.integers(0, len(scan)))
    return strat()


def zx_layer(scan, max_width):
    from hypothesis import strategies as st

    @st.composite
    def strat(draw):
        opts = ["spider", "spider", "scalar"]
        if scan:
            opts += ["H"]
        if len(scan) >= 2:
            opts += ["swap"]
        kind = draw(st.sampled_from(opts))
        if kind == "H":
            return {"k": "zx", "g": "H"}, draw(st.integers(0, len(scan) - 1))
        if kind == "qswap":
            off = draw(st.sampled_from(adj_q))
            return {"k": "swap", "l": scan[off], "r": scan[off + 1]}, off
        if kind == "bra2":
            off = draw(st.sampled_from(adj_q))
            n = 3 if off + 1 in adj_q and draw(st.booleans()) else 2
            return {"k": "g", "g": "Bra", "a": draw(st.lists(
                st.integers(0, 1), min_size=n, max_size=n))}, off
        if kind == "swap":
            off = draw(st.integers(0, len(scan) - 2))
            return {"k": "swap", "l": [1, 0], "r": [1, 0]}, off
        if kind == "scalar":
            return {"k": "zx", "g": "scalar", "ph": [
                draw(st.integers(-2, 2)), draw(st.integers(-2, 2))]},\
                draw(st.integers(0, len(scan)))
        n_in = draw(st.integers(0, min(3, len(scan))))
        off = draw(st.integers(0, len(scan) - n_in))
        room = max_width - len(scan) + n_in
        n_out = draw(st.integers(0, max(0, min(3, room))))
        return {"k": "zx", "g": draw(st.sampled_from(["Z", "X"])),
                "n": [n_in, n_out], "ph": draw(_phases())}, off
    return strat()


def _install():
    from harness import gen
    gen.CLASS_NAMES["circuit"] = ["qubit", "qubit", "bit"]
    gen.CLASS_NAMES["zx"] = [1]
    gen.LAYER_FN["circuit"] = circuit_layer
    gen.LAYER_FN["zx"] = zx_layer


_install()
