"""Known / fixed findings: parsing of known-findings.txt, matchers, replays.

The file is read only; nothing here ever writes to it.

    known: property=<id> key=<key> replay=<path> :: <what fails>
    fixed: property=<id> <commit> <what failed> replay=<path>

A `known` entry (i) is replayed at the start of every run of its property and
printed as `KNOWN-FINDING:` while it still fails with the recorded label, and
(ii) activates the matcher / generator exclusion registered under <key>, so that
generated search continues behind it.  A `fixed` entry suppresses nothing: its
replay must pass.
"""
import os
import re
import json
import glob

from harness import core

FILE = os.path.join(core.ROOT, "known-findings.txt")

MATCHERS = {}  # key -> callable(pid, facet, spec, label) -> bool


def matcher(key):
    def deco(func):
        MATCHERS[key] = func
        return func
    return deco


_cache = None


def entries():
    global _cache
    if _cache is not None:
        return _cache
    known, fixed = [], []
    if os.path.exists(FILE):
        for line in open(FILE):
            line = line.strip()
            if line.startswith("known:"):
                m = re.match(
                    r"known:\s+property=(\S+)\s+key=(\S+)\s+replay=(\S+)"
                    r"\s+::\s+(.*)", line)
                if not m:
                    raise core.HarnessError("bad line: " + line)
                known.append(dict(zip(
                    ("property", "key", "replay", "what"), m.groups())))
            elif line.startswith("fixed:"):
                m = re.match(r"fixed:\s+property=(\S+)\s+(\S+)\s+(.*?)"
                             r"(?:\s+replay=(\S+))?$", line)
                if not m:
                    raise core.HarnessError("bad line: " + line)
                fixed.append(dict(zip(
                    ("property", "commit", "what", "replay"), m.groups())))
    _cache = known, fixed
    return _cache


def active(key, pid=None):
    """ Is <key> listed as a known finding (for this property)? """
    if os.environ.get("VERIF_NO_EXCLUSIONS"):
        return False
    return any(e["key"] == key and (pid is None or e["property"] == pid)
               for e in entries()[0])


def match(pid, facet, spec, label):
    for entry in entries()[0]:
        if entry["property"] != pid or entry["key"] not in MATCHERS:
            continue
        try:
            if MATCHERS[entry["key"]](pid, facet, spec, label):
                return entry["key"]
        except Exception:  # noqa: a matcher that cannot read a spec: no match
            continue
    return None


def replay_tier(pid, exclusions=True):
    """ Returns (lines to print, exit code). """
    lines, code = [], 0
    known, fixed = entries()
    for entry in known:
        if entry["property"] != pid:
            continue
        path = os.path.join(core.ROOT, entry["replay"])
        data = json.load(open(path))
        failure = core.replay_case(pid, data["facet"], data["spec"])
        if failure is None:
            lines.append(
                "NOTE: known finding property={} key={} no longer reproduces"
                .format(pid, entry["key"]))
        elif failure["label"] == data["label"]:
            lines.append("KNOWN-FINDING: property={} key={} {}".format(
                pid, entry["key"], entry["what"]))
        else:
            lines.append("VIOLATION property={} replay={}".format(
                pid, entry["replay"]))
            lines.append("  known finding {} now fails differently: {} "
                         "(recorded {})".format(
                             entry["key"], failure["label"], data["label"]))
            code = 1
    paths = [e["replay"] for e in fixed if e["property"] == pid and e["replay"]]
    paths += sorted(os.path.relpath(p, core.ROOT) for p in glob.glob(
        os.path.join(core.ROOT, "replays", "regress", pid + "-*.json")))
    for rel in sorted(set(paths)):
        data = json.load(open(os.path.join(core.ROOT, rel)))
        failure = core.replay_case(pid, data["facet"], data["spec"])
        if failure is not None and failure["kind"] != "timeout":
            lines.append("VIOLATION property={} replay={}".format(pid, rel))
            lines.append("  regression replay fails: {} :: {}".format(
                failure["label"], failure["message"][:300]))
            code = 1
    return lines, code


@matcher("hash-numeric-tower")
def _hash_numeric_tower(pid, facet, spec, label):
    return pid == "C03" and facet == "hash_numeric_tower"\
        and label == "C03:hash-numeric-tower"


@matcher("hash-dict-order")
def _hash_dict_order(pid, facet, spec, label):
    return pid == "C03" and label == "C03:hash-dict-order"


@matcher("hash-word-vs-box")
def _hash_word_vs_box(pid, facet, spec, label):
    return pid == "C03" and label == "C03:hash-word-vs-box"


def _c13(pid, facet, spec):
    return pid == "C13" and "d" in spec and facet in (
        "export", "export_registers", "roundtrip")


@matcher("to-tk-classical-then-register")
def _k1(pid, facet, spec, label):
    from harness.props import c13
    return _c13(pid, facet, spec) and c13.k1_classical_then_register(spec["d"])


@matcher("to-tk-bits-prep-position")
def _k6(pid, facet, spec, label):
    from harness.props import c13
    return _c13(pid, facet, spec) and c13.k6_bits_after_bits(spec["d"])


@matcher("from-tk-post-selection-index")
def _k7(pid, facet, spec, label):
    from harness.props import c13
    return pid == "C13" and facet == "roundtrip"\
        and c13.k7_post_selection_index(spec["d"])


@matcher("controlled-y-layout")
def _k5(pid, facet, spec, label):
    return _c13(pid, facet, spec) and any(
        b.get("g") == "C" and b["a"][0]["g"] == "Y"
        for b, _ in spec["d"]["layers"])


@matcher("scalar-grad-ignores-mixed")
def _scalar_grad(pid, facet, spec, label):
    from harness.props import c14
    if pid != "C15" or facet != "circuits" or not spec.get("mixed"):
        return False
    return any(b.get("g") in ("scalar", "sqrt") and isinstance(b["a"][0], str)
               and spec["var"] in c14.expr_symbols(b["a"][0])
               for b, _ in spec["d"]["layers"])
